//! The two exploration engines.
//!  * `sweep`  — Mode B: exhaustive enumeration of a finite product space, in parallel, merged deterministically.
//!  * `bfs`    — Mode A: stateright breadth-first search over operation sequences, implementation and
//!               reference model stepped together.
use crate::report::{Local, Report};
use std::hash::{Hash, Hasher};
use std::sync::atomic::{AtomicBool, AtomicU64, AtomicUsize, Ordering};
use std::sync::Mutex;
use std::time::Instant;

pub fn fnv(b: &[u8]) -> u64 {
    let mut h: u64 = 0xcbf29ce484222325;
    for x in b {
        h ^= *x as u64;
        h = h.wrapping_mul(0x100000001b3);
    }
    h
}

pub fn threads() -> usize {
    std::env::var("HMC_THREADS")
        .ok()
        .and_then(|s| s.parse().ok())
        .unwrap_or_else(|| std::thread::available_parallelism().map(|n| n.get()).unwrap_or(4))
}

/// Enumerate every index of `0..n` exactly once and call `f(index, local)`.
pub fn sweep<F>(rep: &mut Report, sub: &str, n: u64, f: F)
where
    F: Fn(u64, &mut Local) + Sync,
{
    sweep_named(rep, sub, n, f, |i| vec![format!("case-index:{i}")])
}

/// Order independence: exhaustive call sequences over a menu of `m` judged operations, run while nothing else calls the
/// library. An operation whose answer depends on what was called before it (a memo, a cursor left in a table, a
/// thread-local scratch value, a lazily built table) is wrong in some sequence although it is right on its own.
///
/// Always: every ordered pair (i, j) back to back on one thread, j judged by its usual oracle.
/// When the library sources contain shared mutable state (`report::shared_state_scan`), the exploration goes deeper:
///  * every ordered pair again, each on a FRESH thread (state that is built by the first call of a thread);
///  * every sequence of four calls over a sub-menu of up to ten operations, each on a fresh thread, every call judged
///    (A,B,A,B / A,B,A,A patterns of two-entry caches; 10^4 sequences);
///  * the whole menu walked in ten strides (i -> i*k mod m, k = 1, 2, 3, 5, 7, 11, 13, 16, 17, 31) forwards and backwards,
///    every call judged (memos with a lossy key collide on inputs a fixed distance apart);
///  * 140 000 consecutive calls of one operation (six operations), every call judged: counters that overflow;
///  * nine repetitions of one operation followed by another one, for every pair of a sub-menu of up to 24 operations
///    (counters, eviction, tables that fill up);
///  * every prelude of `props::perturb` (calls into OTHER parts of the API) followed by every operation of the menu, each on
///    a fresh thread.
/// An operation that fails in a sequence is reported as order dependent only if it holds when it is the first call of a
/// fresh thread (its "solo" verdict); failures that are not order dependent are left to the ordinary sweeps.
pub fn order_pairs<F>(rep: &mut Report, sub: &str, m: u64, f: F)
where
    F: Fn(u64, &mut Local) + Sync,
{
    if m == 0 {
        return;
    }
    sweep(rep, sub, 1, |_, out| {
        let f = &f;
        // fresh-process exploration (main.rs): this process exists to find out whether the menu holds when it starts with
        // operation HMC_FIRST_OP (after the prelude HMC_FIRST): that operation, then every operation once, judged directly
        if std::env::var("HMC_CHILD").is_ok() {
            let first = std::env::var("HMC_FIRST_OP").ok().and_then(|s| s.parse::<u64>().ok()).unwrap_or(0) % m;
            f(first, out);
            for j in 0..m {
                f(j, out);
            }
            for j in (0..m).rev() {
                f(j, out);
            }
            return;
        }
        let (state_lines, _) = crate::report::shared_state_scan();
        // solo verdicts: each operation as the first call of a fresh thread
        let solo_bad: Vec<bool> = (0..m)
            .map(|j| {
                std::thread::scope(|sc| {
                    sc.spawn(move || {
                        let mut l = Local::new();
                        f(j, &mut l);
                        !l.viols.is_empty()
                    })
                    .join()
                    .unwrap_or(true)
                })
            })
            .collect();
        let mut calls = m;
        // judge one call inside a sequence; Some(description) = order dependence
        let judge = |j: u64, history: &dyn Fn() -> String| -> Option<(String, String)> {
            let mut probe = Local::new();
            f(j, &mut probe);
            if !probe.viols.is_empty() && !solo_bad[j as usize] {
                let v = &probe.viols[0];
                return Some((format!("operation #{j} holds when it is the first call of a thread"), format!("after {}: {} (expected {}, observed {})", history(), v.sig, v.expected, v.observed)));
            }
            None
        };
        let mut found: Option<(&'static str, String, String)> = None;
        // phase 1: every ordered pair on this thread
        'p1: for i in 0..m {
            for j in 0..m {
                let mut scratch = Local::new();
                f(i, &mut scratch);
                calls += 2;
                if let Some((e, o)) = judge(j, &|| format!("operation #{i}")) {
                    found = Some(("result-depends-on-the-previous-call", e, o));
                    break 'p1;
                }
            }
        }
        let mut deeper = 0u64;
        if found.is_none() && state_lines > 0 {
            let pick = |n: u64| -> Vec<u64> {
                let stride = (m / n).max(1);
                (0..m).step_by(stride as usize).take(n as usize).collect()
            };
            // phase 2: ordered pairs, each on a fresh thread
            let m2 = pick(64);
            'p2: for &i in &m2 {
                for &j in &m2 {
                    let r = std::thread::scope(|sc| {
                        sc.spawn(|| {
                            let mut scratch = Local::new();
                            f(i, &mut scratch);
                            judge(j, &|| format!("operation #{i} (first call of the thread)"))
                        })
                        .join()
                        .ok()
                        .flatten()
                    });
                    deeper += 2;
                    if let Some((e, o)) = r {
                        found = Some(("result-depends-on-the-first-call-of-the-thread", e, o));
                        break 'p2;
                    }
                }
            }
            // phase 3: every sequence of four calls over a sub-menu of ten, each on a fresh thread, every call judged
            if found.is_none() {
                let m3 = pick(10);
                let n3 = m3.len();
                'p3: for code in 0..n3.pow(4) {
                    let seq: Vec<u64> = (0..4).map(|k| m3[(code / n3.pow(k)) % n3]).collect();
                    let r = std::thread::scope(|sc| {
                        sc.spawn(|| {
                            for k in 0..4 {
                                if let Some(x) = judge(seq[k], &|| format!("operations {:?}", &seq[..k])) {
                                    return Some(x);
                                }
                            }
                            None
                        })
                        .join()
                        .ok()
                        .flatten()
                    });
                    deeper += 4;
                    if let Some((e, o)) = r {
                        found = Some(("result-depends-on-the-previous-calls", e, o));
                        break 'p3;
                    }
                }
            }
            // phase 4: strides over the whole menu, forwards and backwards, every call judged
            if found.is_none() {
                'p4: for k in [1u64, 2, 3, 5, 7, 11, 13, 16, 17, 31] {
                    for rev in [false, true] {
                        let r = std::thread::scope(|sc| {
                            sc.spawn(|| {
                                for t in 0..m {
                                    let t = if rev { m - 1 - t } else { t };
                                    let j = (t * k) % m;
                                    if let Some(x) = judge(j, &|| format!("a walk over the menu with stride {k}{}", if rev { " backwards" } else { "" })) {
                                        return Some(x);
                                    }
                                }
                                None
                            })
                            .join()
                            .ok()
                            .flatten()
                        });
                        deeper += m;
                        if let Some((e, o)) = r {
                            found = Some(("result-depends-on-the-previous-calls", e, o));
                            break 'p4;
                        }
                    }
                }
            }
            // phase 5: nine repetitions of one operation, then another one
            if found.is_none() {
                let m5 = pick(24);
                'p5: for &a in &m5 {
                    for &b in &m5 {
                        let r = std::thread::scope(|sc| {
                            sc.spawn(|| {
                                for _ in 0..9 {
                                    if let Some(x) = judge(a, &|| format!("repetitions of operation #{a}")) {
                                        return Some(x);
                                    }
                                }
                                judge(b, &|| format!("nine repetitions of operation #{a}"))
                            })
                            .join()
                            .ok()
                            .flatten()
                        });
                        deeper += 10;
                        if let Some((e, o)) = r {
                            found = Some(("result-depends-on-the-previous-calls", e, o));
                            break 'p5;
                        }
                    }
                }
            }
            // phase 5b: long runs of ONE operation - 140 000 consecutive calls (beyond 2^16 and 2^17), every call judged, then one
            // other operation: hit counters, generation counters and reference counts kept in 8 or 16 bits overflow only here
            if found.is_none() {
                let m5 = pick(6);
                'p5b: for (n, &a) in m5.iter().enumerate() {
                    let b = m5[(n + 1) % m5.len()];
                    let r = std::thread::scope(|sc| {
                        sc.spawn(|| {
                            for k in 0..140_000u32 {
                                if let Some(x) = judge(a, &|| format!("{k} consecutive calls of operation #{a}")) {
                                    return Some(x);
                                }
                            }
                            judge(b, &|| format!("140 000 consecutive calls of operation #{a}"))
                        })
                        .join()
                        .ok()
                        .flatten()
                    });
                    deeper += 140_001;
                    if let Some((e, o)) = r {
                        found = Some(("result-depends-on-the-number-of-earlier-calls", e, o));
                        break 'p5b;
                    }
                }
            }
            // phase 6: a call into another part of the API first
            if found.is_none() {
                let np = crate::props::perturb::count();
                'p6: for p in 0..np {
                    for j in 0..m {
                        let r = std::thread::scope(|sc| {
                            sc.spawn(|| {
                                crate::props::perturb::run(p);
                                judge(j, &|| format!("prelude '{}'", crate::props::perturb::name(p)))
                            })
                            .join()
                            .ok()
                            .flatten()
                        });
                        deeper += 2;
                        if let Some((e, o)) = r {
                            found = Some(("result-depends-on-an-earlier-call-elsewhere-in-the-api", e, o));
                            break 'p6;
                        }
                    }
                }
            }
        }
        out.metric_max("shared_state_lines_in_library_sources", state_lines as f64);
        match found {
            Some((sig, e, o)) => out.viol(sub, sig.into(), vec!["rerun".into()], e, o),
            None => {
                out.ok(calls + deeper, true, (state_lines > 0) as u64);
                out.sample(sub, vec![m.to_string()], format!("{} ordered pairs of {m} operations{}: every answer unchanged by the earlier calls", m * m, if state_lines > 0 { format!(" and {deeper} further calls in deeper sequences (shared state present in the library sources)") } else { String::new() }), true);
            }
        }
    });
}

/// Like `sweep`, with a function that names case `i` (used only when the watchdog has to report a hang).
/// Watchdog: a case that runs longer than the limit is reported as a violation of the no-hang clause with that
/// case as the replay; the stuck thread cannot be stopped, so the run ends there (never called exhaustive).
pub fn sweep_named<F, G>(rep: &mut Report, sub: &str, n: u64, f: F, args_of: G)
where
    F: Fn(u64, &mut Local) + Sync,
    G: Fn(u64) -> Vec<String>,
{
    if std::env::var("HMC_ONLY_ORDER").is_ok() && !sub.ends_with(".order") {
        return; // fresh-process exploration (main.rs): only the order-independence menus are run
    }
    let t0 = Instant::now();
    let nthreads = threads().max(1);
    // chunking depends on n only => deterministic merge order and sample choice
    let chunk = (n / 512).clamp(1, 1 << 20);
    let nchunks = n.div_ceil(chunk);
    let nworkers = nthreads.min(nchunks as usize).max(1);
    let next = AtomicU64::new(0);
    let results: Mutex<Vec<Option<Local>>> = Mutex::new((0..nchunks).map(|_| None).collect());
    let capped = AtomicBool::new(false);
    let deadline = rep.deadline;
    // (an order-independence exploration is ONE case that runs many calls: its own, generous limit)
    let hang_limit_ms: u64 = if sub.ends_with(".order") { 1800 * 1000 } else { std::env::var("HMC_HANG_LIMIT_S").ok().and_then(|s| s.parse().ok()).unwrap_or(if rep.quick() { 10 } else { 30 }) * 1000 };
    // per worker: current case index (u64::MAX = idle)
    let cur: Vec<AtomicU64> = (0..nworkers).map(|_| AtomicU64::new(u64::MAX)).collect();
    let done = AtomicUsize::new(0);
    let mut hang: Option<u64> = None;
    std::thread::scope(|s| {
        for w in 0..nworkers {
            let (next, results, capped, cur, done, f) = (&next, &results, &capped, &cur, &done, &f);
            s.spawn(move || {
                loop {
                    let c = next.fetch_add(1, Ordering::Relaxed);
                    if c >= nchunks {
                        break;
                    }
                    if let Some(d) = deadline {
                        if Instant::now() > d {
                            capped.store(true, Ordering::Relaxed);
                            break;
                        }
                    }
                    let mut l = Local { sub: sub.to_string(), ..Local::new() };
                    let lo = c * chunk;
                    let hi = ((c + 1) * chunk).min(n);
                    for i in lo..hi {
                        cur[w].store(i, Ordering::Relaxed);
                        f(i, &mut l);
                    }
                    cur[w].store(u64::MAX, Ordering::Relaxed);
                    results.lock().unwrap()[c as usize] = Some(l);
                }
                done.fetch_add(1, Ordering::Release);
            });
        }
        // watchdog loop (this thread)
        let mut last_seen: Vec<(u64, u64)> = vec![(u64::MAX, 0); nworkers];
        while done.load(Ordering::Acquire) < nworkers {
            std::thread::sleep(std::time::Duration::from_millis(if t0.elapsed().as_millis() < 200 { 1 } else { 50 }));
            let now = t0.elapsed().as_millis() as u64;
            for w in 0..nworkers {
                let i = cur[w].load(Ordering::Relaxed);
                if i == u64::MAX {
                    last_seen[w] = (u64::MAX, now);
                    continue;
                }
                if last_seen[w].0 != i {
                    last_seen[w] = (i, now);
                } else if now - last_seen[w].1 > hang_limit_ms {
                    hang = Some(i);
                }
            }
            if let Some(i) = hang {
                // report and end the process: the stuck worker cannot be cancelled
                let mut total = Local::new();
                for l in results.lock().unwrap().iter_mut() {
                    if let Some(l) = l.take() {
                        total.merge(l);
                    }
                }
                total.viol(sub, "hang".into(), args_of(i), format!("returns within {} s", hang_limit_ms / 1000), "still running (watchdog)".into());
                let mut r = std::mem::replace(rep, Report::new("-", "quick"));
                r.absorb(sub, n, total, t0.elapsed().as_secs_f64(), false);
                r.cap_note = Some(format!("sub-check {sub} ended by the watchdog: case {i} did not return; later sub-checks were not run"));
                let code = r.finish();
                std::process::exit(code);
            }
        }
    });
    let mut total = Local::new();
    for l in results.into_inner().unwrap().into_iter().flatten() {
        total.merge(l);
    }
    let complete = !capped.load(Ordering::Relaxed);
    rep.absorb(sub, n, total, t0.elapsed().as_secs_f64(), complete);
}

// ---------------------------------------------------------------------------------------------
// Mode A: stateright glue

/// A co-simulation of the implementation and its reference model over an operation alphabet.
pub trait SeqSpec: Send + Sync + 'static {
    /// Observable implementation value + model value. Equality/hash = state identity.
    type S: Clone + Hash + Eq + std::fmt::Debug + Send + Sync + 'static;
    fn inits(&self) -> Vec<Self::S>;
    fn n_actions(&self) -> usize;
    fn action_name(&self, a: usize) -> String;
    fn state_name(&self, s: &Self::S) -> String;
    /// Apply action `a` to the real code and to the model, judge the transition into `out`,
    /// return the successor (or None to prune: known-wrong value, or out of the quantifier).
    fn step(&self, s: &Self::S, a: usize, path: &[u16], out: &mut Local) -> Option<Self::S>;
    fn max_depth(&self) -> usize;
}

#[derive(Clone, Debug)]
pub struct Node<S> {
    pub s: S,
    pub depth: u8,
    /// first path that reached this state (init index, then action indices); not part of identity
    pub path: Vec<u16>,
}
impl<S: Hash> Hash for Node<S> {
    fn hash<H: Hasher>(&self, h: &mut H) {
        self.s.hash(h);
        self.depth.hash(h);
    }
}
impl<S: PartialEq> PartialEq for Node<S> {
    fn eq(&self, o: &Self) -> bool {
        self.s == o.s && self.depth == o.depth
    }
}

const SHARDS: usize = 64;
pub struct Glue<T: SeqSpec> {
    pub spec: T,
    pub shards: Vec<Mutex<Local>>,
    pub next_shard: AtomicUsize,
}
thread_local! { static SHARD: std::cell::Cell<usize> = const { std::cell::Cell::new(usize::MAX) }; }

impl<T: SeqSpec> Glue<T> {
    fn shard(&self) -> usize {
        SHARD.with(|c| {
            if c.get() == usize::MAX {
                c.set(self.next_shard.fetch_add(1, Ordering::Relaxed) % SHARDS);
            }
            c.get()
        })
    }
}

impl<T: SeqSpec> stateright::Model for Glue<T> {
    type State = Node<T::S>;
    type Action = u16;
    fn init_states(&self) -> Vec<Self::State> {
        self.spec.inits().into_iter().enumerate().map(|(i, s)| Node { s, depth: 0, path: vec![i as u16] }).collect()
    }
    fn actions(&self, state: &Self::State, actions: &mut Vec<Self::Action>) {
        if (state.depth as usize) < self.spec.max_depth() {
            for a in 0..self.spec.n_actions() {
                actions.push(a as u16);
            }
        }
    }
    fn next_state(&self, state: &Self::State, action: Self::Action) -> Option<Self::State> {
        let mut path = state.path.clone();
        path.push(action);
        let sh = self.shard();
        let mut l = self.shards[sh].lock().unwrap();
        let next = self.spec.step(&state.s, action as usize, &path, &mut l);
        next.map(|s| Node { s, depth: state.depth + 1, path })
    }
    fn properties(&self) -> Vec<stateright::Property<Self>> {
        vec![
            // Never discovered: keeps stateright from stopping before the bounded space is exhausted.
            stateright::Property::<Self>::sometimes("sentinel (never true): explore the whole bounded space", |_, _| false),
            stateright::Property::<Self>::always("depth within bound", |m, s| (s.depth as usize) <= m.spec.max_depth()),
        ]
    }
}

/// Run the BFS to exhaustion of the depth-bounded space. Returns (unique states, max depth).
pub fn bfs<T: SeqSpec>(rep: &mut Report, sub: &str, spec: T) {
    use stateright::{Checker, Model};
    if std::env::var("HMC_ONLY_ORDER").is_ok() {
        return;
    }
    let t0 = Instant::now();
    let n_inits = spec.inits().len();
    let glue = Glue { spec, shards: (0..SHARDS).map(|_| Mutex::new(Local { keep_smallest: true, sub: sub.to_string(), ..Local::new() })).collect(), next_shard: AtomicUsize::new(0) };
    let mut builder = glue.checker().threads(threads());
    if let Some(d) = rep.deadline {
        let left = d.saturating_duration_since(Instant::now());
        builder = builder.timeout(left);
    }
    let checker = builder.spawn_bfs().join();
    let unique = checker.unique_state_count() as u64;
    let maxd = checker.max_depth() as u64;
    let complete = checker.is_done() && rep.deadline.map(|d| Instant::now() < d).unwrap_or(true);
    if checker.discovery("depth within bound").is_some() {
        eprintln!("MACHINERY: BFS exceeded its depth bound");
        std::process::exit(2);
    }
    let model = checker.model();
    let mut total = Local { keep_smallest: true, ..Local::new() };
    for sh in &model.shards {
        let l = std::mem::take(&mut *sh.lock().unwrap());
        total.merge(l);
    }
    // deterministic order of retained violations regardless of thread timing
    total.viols.sort_by(|a, b| (&a.sig, a.args.len(), &a.args).cmp(&(&b.sig, b.args.len(), &b.args)));
    total.samples.sort_by(|a, b| a.args.cmp(&b.args));
    total.nt_samples.sort_by(|a, b| a.args.cmp(&b.args));
    rep.seq_states += unique;
    rep.seq_max_depth = rep.seq_max_depth.max(maxd);
    let _ = n_inits;
    rep.absorb(sub, unique, total, t0.elapsed().as_secs_f64(), complete);
}
