//! hmc — bounded explicit-state model checking of hifitime against executable reference models.
mod engine;
mod lattice;
mod oracle;
mod props;
mod report;

use report::{Local, Report};

fn usage() -> ! {
    eprintln!("usage: hmc check <Cxx> <quick|thorough> | hmc replay <file.json> | hmc list");
    std::process::exit(2)
}

fn self_tests() {
    oracle::dur::self_test();
    oracle::ulp::self_test();
    oracle::civil::self_test();
    oracle::leap::self_test();
    oracle::scales::self_test();
}

fn main() {
    let args: Vec<String> = std::env::args().collect();
    if args.len() < 2 {
        usage();
    }
    // oracle self tests run with the default hook so that a failure is loud
    self_tests();
    report::install_panic_hook();
    match args[1].as_str() {
        "list" => {
            for (id, _, _) in props::table() {
                println!("{id}");
            }
        }
        "check" => {
            if args.len() < 4 {
                usage();
            }
            let id = args[2].to_uppercase();
            let tier = args[3].as_str();
            if tier != "quick" && tier != "thorough" {
                usage();
            }
            let Some((_, run, _)) = props::table().into_iter().find(|(p, _, _)| *p == id) else {
                eprintln!("MACHINERY: no check registered for {id}");
                std::process::exit(2);
            };
            let mut rep = Report::new(&id, tier);
            run(&mut rep);
            std::process::exit(rep.finish());
        }
        "replay" => {
            if args.len() < 3 {
                usage();
            }
            let txt = std::fs::read_to_string(&args[2]).unwrap_or_else(|e| {
                eprintln!("MACHINERY: cannot read {}: {e}", args[2]);
                std::process::exit(2)
            });
            let v: serde_json::Value = serde_json::from_str(&txt).expect("replay file is not JSON");
            let check = v["check"].as_str().expect("check").to_string();
            let a: Vec<String> = v["args"].as_array().expect("args").iter().map(|x| x.as_str().unwrap().to_string()).collect();
            if a.first().map(|x| x == "rerun").unwrap_or(false) {
                // a violation noticed outside a judge's own comparison (a denormalised Duration handed out): the
                // replay is the quick tier of the property's check itself
                let id = v["property"].as_str().expect("property").to_string();
                let (_, run, _) = props::table().into_iter().find(|(p, _, _)| *p == id).expect("property");
                println!("replay check={check}: re-running {id} quick");
                let mut rep = Report::new(&id, "quick");
                run(&mut rep);
                std::process::exit(rep.finish());
            }
            let mut out = Local::new();
            out.verbose = true;
            let mut found = false;
            for (_, _, rp) in props::table() {
                if rp(&check, &a, &mut out) {
                    found = true;
                    break;
                }
            }
            if !found {
                eprintln!("MACHINERY: unknown check {check}");
                std::process::exit(2);
            }
            println!("replay check={check} args={a:?}");
            for v in &out.verdicts {
                println!("{v}");
            }
            if out.verdicts.is_empty() {
                println!("no verdict");
            }
            let bad: u64 = out.sig_counts.values().sum();
            std::process::exit(if bad > 0 { 1 } else { 0 });
        }
        _ => usage(),
    }
}
