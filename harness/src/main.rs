//! hmc — bounded explicit-state model checking of hifitime against executable reference models.
mod engine;
mod lattice;
mod oracle;
mod props;
mod report;

use report::{Local, Report};

fn usage() -> ! {
    eprintln!("usage: hmc check <Cxx> <quick|thorough> | hmc replay <file.json> | hmc list");
    std::process::exit(2)
}

fn self_tests() {
    oracle::dur::self_test();
    oracle::ulp::self_test();
    oracle::civil::self_test();
    oracle::leap::self_test();
    oracle::scales::self_test();
}

/// When the library sources contain shared mutable state, the state a process starts with matters too (a table built
/// lazily from the first argument seen, a cache that is empty only once): the order-independence menus of the property are
/// run again in FRESH processes, one per prelude of `props::perturb` (prelude 0 = nothing), the prelude being the first use
/// of the library in that process. A child that reports a violation the parent run does not have is an order dependence on
/// the first calls of the process.
fn fresh_process_exploration(rep: &mut Report, id: &str, tier: &str) {
    let (state_lines, files) = report::shared_state_scan();
    if state_lines == 0 || std::env::var("HMC_CHILD").is_ok() {
        return;
    }
    eprintln!("NOTE [{id}] shared mutable state in the library sources ({state_lines} lines in {files:?}): deeper call sequences and fresh-process exploration are on");
    let Ok(exe) = std::env::current_exe() else { return };
    let scratch = format!("{}/target/scratch/fresh/{id}", report::verif());
    let _ = std::fs::create_dir_all(&scratch);
    let _ = std::fs::copy(format!("{}/KNOWN_FINDINGS.txt", report::verif()), format!("{scratch}/KNOWN_FINDINGS.txt"));
    let parent_sigs: std::collections::BTreeSet<String> = rep.total.sig_counts.keys().cloned().collect();
    // menu sizes are not known here: the children take HMC_FIRST_OP modulo their menu size; 256 covers every menu
    let mut runs: Vec<(usize, usize)> = (0..props::perturb::count()).map(|k| (k, 0usize)).collect();
    runs.extend((1..256usize).map(|j| (0usize, j)));
    let found = std::sync::Mutex::new(None::<String>);
    let next = std::sync::atomic::AtomicUsize::new(0);
    std::thread::scope(|sc| {
        for _ in 0..8 {
            sc.spawn(|| loop {
                let i = next.fetch_add(1, std::sync::atomic::Ordering::Relaxed);
                if i >= runs.len() || found.lock().unwrap().is_some() {
                    break;
                }
                let (k, j) = runs[i];
                let dir = format!("{scratch}/{i}");
                let _ = std::fs::create_dir_all(&dir);
                let _ = std::fs::copy(format!("{}/KNOWN_FINDINGS.txt", report::verif()), format!("{dir}/KNOWN_FINDINGS.txt"));
                let out = std::process::Command::new(&exe).args(["check", id, tier]).env("HMC_FIRST", k.to_string()).env("HMC_FIRST_OP", j.to_string()).env("HMC_ONLY_ORDER", "1").env("HMC_CHILD", "1").env("HMC_THREADS", "1").env("HMC_VERIF", &dir).output();
                let Ok(out) = out else { continue };
                let text = String::from_utf8_lossy(&out.stdout);
                for line in text.lines().filter(|l| l.starts_with("VIOLATION")) {
                    let sig = line.split("signature=").nth(1).and_then(|s| s.split(' ').next()).unwrap_or("?").to_string();
                    if !parent_sigs.contains(&sig) {
                        *found.lock().unwrap() = Some(format!("prelude '{}', then operation #{j} of the menu first: {}", props::perturb::name(k), line.chars().take(400).collect::<String>()));
                        break;
                    }
                }
                let _ = std::fs::remove_dir_all(&dir);
            });
        }
    });
    if let Some(what) = found.into_inner().unwrap() {
        let check = format!("{}.order", id.to_lowercase());
        rep.total.viol(&check, "result-depends-on-the-first-calls-of-the-process".into(), vec!["rerun".into()], "the order-independence menu holds in a fresh process whatever the process did first".into(), what);
    }
}

fn main() {
    let args: Vec<String> = std::env::args().collect();
    if args.len() < 2 {
        usage();
    }
    // fresh-process exploration: the prelude named by HMC_FIRST is the very first use of the library in this process
    if let Some(k) = std::env::var("HMC_FIRST").ok().and_then(|s| s.parse::<usize>().ok()) {
        props::perturb::run(k);
    }
    // oracle self tests run with the default hook so that a failure is loud
    self_tests();
    report::install_panic_hook();
    match args[1].as_str() {
        "list" => {
            for (id, _, _) in props::table() {
                println!("{id}");
            }
        }
        "check" => {
            if args.len() < 4 {
                usage();
            }
            let id = args[2].to_uppercase();
            let tier = args[3].as_str();
            if tier != "quick" && tier != "thorough" {
                usage();
            }
            let Some((_, run, _)) = props::table().into_iter().find(|(p, _, _)| *p == id) else {
                eprintln!("MACHINERY: no check registered for {id}");
                std::process::exit(2);
            };
            let mut rep = Report::new(&id, tier);
            run(&mut rep);
            fresh_process_exploration(&mut rep, &id, tier);
            std::process::exit(rep.finish());
        }
        "replay" => {
            if args.len() < 3 {
                usage();
            }
            let txt = std::fs::read_to_string(&args[2]).unwrap_or_else(|e| {
                eprintln!("MACHINERY: cannot read {}: {e}", args[2]);
                std::process::exit(2)
            });
            let v: serde_json::Value = serde_json::from_str(&txt).expect("replay file is not JSON");
            let check = v["check"].as_str().expect("check").to_string();
            let a: Vec<String> = v["args"].as_array().expect("args").iter().map(|x| x.as_str().unwrap().to_string()).collect();
            if a.first().map(|x| x == "rerun").unwrap_or(false) {
                // a violation noticed outside a judge's own comparison (a denormalised Duration handed out): the
                // replay is the quick tier of the property's check itself
                let id = v["property"].as_str().expect("property").to_string();
                let (_, run, _) = props::table().into_iter().find(|(p, _, _)| *p == id).expect("property");
                println!("replay check={check}: re-running {id} quick");
                let mut rep = Report::new(&id, "quick");
                run(&mut rep);
                std::process::exit(rep.finish());
            }
            let mut out = Local::new();
            out.verbose = true;
            let mut found = false;
            for (_, _, rp) in props::table() {
                if rp(&check, &a, &mut out) {
                    found = true;
                    break;
                }
            }
            if !found {
                eprintln!("MACHINERY: unknown check {check}");
                std::process::exit(2);
            }
            println!("replay check={check} args={a:?}");
            for v in &out.verdicts {
                println!("{v}");
            }
            if out.verdicts.is_empty() {
                println!("no verdict");
            }
            let bad: u64 = out.sig_counts.values().sum();
            std::process::exit(if bad > 0 { 1 } else { 0 });
        }
        _ => usage(),
    }
}
