//! Deterministic input lattices (DESIGN.md §3.2). All sorted + deduplicated.
use crate::oracle::dur::*;

fn finish(mut v: Vec<i128>, lo: i128, hi: i128) -> Vec<i128> {
    v.retain(|x| *x >= lo && *x <= hi);
    v.sort();
    v.dedup();
    v
}

pub const CENTURY_ANCHORS: [i128; 23] = [
    -32768, -32767, -32766, -16384, -6, -5, -4, -3, -2, -1, 0, 1, 2, 3, 4, 5, 6, 16383, 32765, 32766, 32767, 32768, 100,
];

pub const UNIT_NS: [i128; 9] = [1, 1_000, 1_000_000, NS_S, 60 * NS_S, 3_600 * NS_S, NS_DAY, 7 * NS_DAY, NPC];

/// Duration lattice `DL`. `w` = half-width of the dense windows; `with_units` adds the unit-multiple part.
pub fn dl(w: i128, with_units: bool) -> Vec<i128> {
    let mut v = vec![];
    let offs: Vec<i128> = {
        let mut o = vec![0, 1, 2, 3, NPC / 2, NPC / 2 + 1, NPC / 2 - 1, NS_S, NS_DAY + 1, NS_DAY - 1, NPC - NS_S];
        let neg: Vec<i128> = o.iter().map(|x| -x).collect();
        o.extend(neg);
        o
    };
    for c in CENTURY_ANCHORS {
        for o in &offs {
            v.push(c * NPC + o);
        }
    }
    for b in [i64::MIN as i128, i64::MAX as i128] {
        for d in -2..=2 {
            v.push(b + d);
        }
    }
    for a in [0, NPC, -NPC, 2 * NPC, -2 * NPC, 3 * NPC, -3 * NPC, DMIN, DMAX, i64::MIN as i128, i64::MAX as i128] {
        for d in -w..=w {
            v.push(a + d);
        }
    }
    // bit- and digit-boundary values in the interior: 2^k, 2^k +- 1 and 10^k, 10^k +- 1 (both signs). A narrowing cast
    // (u32, i64, f64 mantissa) or a fast path keyed on the magnitude shows at such values, not at century anchors
    for k in 0..=77u32 {
        let p = 1i128 << k;
        for d in [-1i128, 0, 1] {
            v.push(p + d);
            v.push(-(p + d));
        }
    }
    let mut p10: i128 = 1;
    for _ in 0..=23 {
        for d in [-1i128, 0, 1] {
            v.push(p10 + d);
            v.push(-(p10 + d));
        }
        p10 *= 10;
    }
    if with_units {
        for u in UNIT_NS {
            for k in [1i128, 2, 3, 7, 23, 24, 59, 60, 61, 999, 1000, 1001, 36524, 36525, 36526, 365_242, 3_652_425] {
                for d in -3..=3 {
                    v.push(k * u + d);
                    v.push(-(k * u) + d);
                }
            }
        }
    }
    finish(v, DMIN, DMAX)
}

/// Integer-factor lattice `KL`.
pub fn kl() -> Vec<i64> {
    let mut v: Vec<i128> = vec![];
    // (every integer 1..=12: fast paths for small factors and divisors; powers of two up to 2^62)
    for x in (0i128..=12).chain([16, 60, 64, 100, 1000, 1 << 20, 1_000_000_000, 1_000_000_007, 1 << 31, 1 << 40, 1 << 53, 1 << 58, 1 << 62]) {
        v.push(x);
        v.push(-x);
    }
    for x in [i64::MIN as i128, i64::MIN as i128 + 1, i64::MAX as i128 - 1, i64::MAX as i128] {
        v.push(x);
    }
    for f in UNIT_NS {
        for b in [i64::MAX as i128, NPC, 2 * NPC, 3 * NPC, 32767 * NPC, 32768 * NPC, 32769 * NPC] {
            for s in [-1i128, 1] {
                let q = (s * b).div_euclid(f);
                for d in -1..=1 {
                    v.push(q + d);
                }
            }
        }
    }
    let v = finish(v, i64::MIN as i128, i64::MAX as i128);
    v.into_iter().map(|x| x as i64).collect()
}

/// Float lattice `FL`.
pub fn fl(thorough: bool) -> Vec<f64> {
    let mut v: Vec<f64> = vec![0.0, -0.0, 1.0, -1.0, 0.5, 0.25, 0.75, 1.5, 2.5, 0.1, 10.598, 1.0 / 3.0, 123456.789];
    let step = if thorough { 1 } else { 7 };
    let mut k = -1074;
    while k <= 1023 {
        let p = 2f64.powi(k);
        // powi underflows for subnormal exponents: build from bits
        let p = if p == 0.0 { f64::from_bits(1u64 << (k + 1074)) } else { p };
        v.push(p);
        v.push(next_up(p));
        v.push(next_down(p));
        if p + 0.5 != p {
            v.push(p + 0.5);
        }
        k += step;
    }
    for k in [-1074, -1073, -1023, -1022, -1, 0, 1, 31, 32, 52, 53, 54, 62, 63, 64, 126, 127, 128, 1022, 1023] {
        let p = if k < -1022 { f64::from_bits(1u64 << (k + 1074)) } else { 2f64.powi(k) };
        v.push(p);
        v.push(next_up(p));
        v.push(next_down(p));
    }
    v.push(9007199254740992.0 - 1.0);
    v.push(9007199254740992.0 + 2.0);
    // thresholds divided by each unit factor
    for f in UNIT_NS {
        for b in [i64::MAX as i128, (i64::MAX as i128) + 1, DMAX, DMAX + 1, i128::MAX, NPC, 2 * NPC, 3 * NPC, 1 << 53] {
            let q = (b as f64) / (f as f64);
            v.push(q);
            v.push(next_up(q));
            v.push(next_down(q));
        }
        v.push(f64::MAX / (f as f64));
        v.push(next_down(f64::MAX / (f as f64)));
        v.push(next_up(f64::MAX / (f as f64)));
    }
    for d in 1..=9 {
        for j in 0..=18 {
            v.push(d as f64 * 10f64.powi(-j));
            v.push(d as f64 * 10f64.powi(j));
        }
    }
    for i in 0..64 {
        v.push(i as f64);
        v.push(i as f64 + 0.999999999);
        v.push(next_down(i as f64 + 1.0));
    }
    v.push(f64::MAX);
    v.push(f64::MIN_POSITIVE);
    let neg: Vec<f64> = v.iter().map(|x| -x).collect();
    v.extend(neg);
    v.retain(|x| x.is_finite());
    v.sort_by(|a, b| a.total_cmp(b));
    v.dedup_by(|a, b| a.to_bits() == b.to_bits());
    v
}

pub fn next_up(x: f64) -> f64 {
    if x.is_nan() || x == f64::INFINITY {
        return x;
    }
    if x == 0.0 {
        return f64::from_bits(1);
    }
    let b = x.to_bits();
    if x > 0.0 {
        f64::from_bits(b + 1)
    } else {
        f64::from_bits(b - 1)
    }
}
pub fn next_down(x: f64) -> f64 {
    -next_up(-x)
}

// ---------------------------------------------------------------------------------------------
// epoch lattices
use crate::oracle::leap::{DIGEST, NS, SOFA_TS};
use crate::oracle::scales;
use hifitime::TimeScale;

pub const J2000_TAI: i128 = 3_155_716_800 * NS;

/// shift that maps a TAI count to (approximately, for UTC/ET/TDB) the count in scale `ts`
fn shift(ts: TimeScale) -> i128 {
    match ts {
        TimeScale::UTC => 0,
        TimeScale::ET | TimeScale::TDB => J2000_TAI,
        _ => scales::zero_tai(ts).unwrap(),
    }
}

/// Epoch lattice EL(scale): counts in the scale itself.
/// `leap_window`: (from, to) seconds around every IERS/SOFA entry, every whole second x 4 sub-second offsets.
pub fn el(ts: TimeScale, w: i128, leap_window: Option<(i64, i64)>) -> Vec<i128> {
    let mut v: Vec<i128> = dl(w, false).into_iter().filter(|x| x.abs() <= 105 * NPC).collect();
    let sh = shift(ts);
    let mut anchors: Vec<i128> = vec![0, J2000_TAI, -32_184_000_000, J2000_TAI - 32_184_000_000];
    for s in [TimeScale::GPST, TimeScale::GST, TimeScale::BDT] {
        anchors.push(scales::zero_tai(s).unwrap());
    }
    // first and last instants of the four-digit years, 1972-01-01 - 1 day, UNIX zero
    anchors.push(crate::oracle::civil::days1900(1, 1, 1) as i128 * scales::DAY);
    anchors.push(crate::oracle::civil::days1900(10_000, 1, 1) as i128 * scales::DAY);
    anchors.push(crate::oracle::civil::days1900(1970, 1, 1) as i128 * scales::DAY);
    anchors.push(crate::oracle::civil::days1900(1971, 12, 31) as i128 * scales::DAY);
    // the mirror images of the scales' zero points about 1900-01-01 (an intermediate equal to MINUS a reference offset)
    for s in [TimeScale::GPST, TimeScale::GST, TimeScale::BDT] {
        anchors.push(-scales::zero_tai(s).unwrap());
    }
    anchors.push(-J2000_TAI);
    for a in anchors {
        for o in [0i128, 1, 2, NS, NS / 2, scales::DAY, 19 * NS, 33 * NS, 37 * NS] {
            v.push(a - sh + o);
            v.push(a - sh - o);
        }
    }
    if let Some((from, to)) = leap_window {
        let all: Vec<i64> = DIGEST.iter().map(|e| e.0).chain(SOFA_TS.iter().copied()).collect();
        for t in all {
            for k in from..=to {
                for sub in [0i128, 1, NS / 2, NS - 1] {
                    v.push((t + k) as i128 * NS + sub - sh);
                }
            }
        }
    } else {
        for (t, d) in DIGEST {
            for o in [-NS, -1, 0, 1, NS] {
                v.push(t as i128 * NS + o - sh);
                v.push((t + d) as i128 * NS + o - sh);
            }
        }
    }
    finish(v, -106 * NPC, 106 * NPC)
}

// ---------------------------------------------------------------------------------------------
// interior scans (added in round 8): deterministic low-discrepancy sequences that fill a range evenly with
// unremarkable values (no power of two or ten, no unit multiple, no round date), so that a threshold, table or
// fast path *introduced by a change* at a mid-range value, or a condition on low-order digits / residues, is met
// by a known fraction of the points. Nothing is random: point k of stream j is a fixed function of (k, j).
const WEYL: [u64; 6] = [0x9E37_79B9_7F4A_7C15, 0xC2B2_AE3D_27D4_EB4F, 0x1656_67B1_9E37_79F9, 0xD6E8_FEB8_6659_FD93, 0xA076_1D64_78BD_642F, 0xE703_7ED1_A0B4_28DB];

/// k-th point of stream `j` in [lo, hi] (inclusive), additive-recurrence (Weyl) sequence on 64-bit fractions
pub fn scan_point(k: u64, j: usize, lo: i128, hi: i128) -> i128 {
    let f = (k.wrapping_add(1)).wrapping_mul(WEYL[j % WEYL.len()]) as u128; // fraction of 2^64
    let span = (hi - lo) as u128 + 1;
    // span < 2^80 and f < 2^64: split the product to stay inside u128
    let (sh, sl) = (span >> 40, span & ((1u128 << 40) - 1));
    let off = ((f * sh) >> 24) + ((f * sl) >> 64);
    lo + (off.min(span - 1)) as i128
}

/// k-th point of a *magnitude* scan: the exponent walks through `bits_lo..=bits_hi` and the mantissa through a Weyl
/// stream, both signs, so that every binade (and hence every decimal digit count) gets the same number of points
pub fn scan_magnitude(k: u64, j: usize, bits_lo: u32, bits_hi: u32) -> i128 {
    let nb = (bits_hi - bits_lo + 1) as u64;
    let b = bits_lo + ((k / 2) % nb) as u32;
    let lo = if b == 0 { 0 } else { 1i128 << (b - 1) };
    let hi = (1i128 << b) - 1;
    let m = scan_point(k / (2 * nb), j, lo, hi.max(lo));
    if k % 2 == 0 {
        m
    } else {
        -m
    }
}
