//! Violation sink, per-worker accumulators, known findings, evidence writer, panic capture.
use serde_json::{json, Value};
use std::cell::RefCell;
use std::collections::{BTreeMap, BTreeSet};
use std::panic::{catch_unwind, AssertUnwindSafe};
use std::time::Instant;

/// output root (evidence, replays, KNOWN_FINDINGS.txt): /verif, or $HMC_VERIF for scratch runs of the self-test
pub fn verif() -> String {
    std::env::var("HMC_VERIF").unwrap_or_else(|_| "/verif".to_string())
}
/// repository root whose data files the oracles read: /repo, or $HMC_REPO for scratch runs of the self-test
pub fn repo() -> String {
    std::env::var("HMC_REPO").unwrap_or_else(|_| "/repo".to_string())
}

/// Scan of the library sources for shared mutable state (statics, atomics, locks, cells, thread locals, unsafe). The
/// exploration engines assume a stateless API ("plain values without hidden state", DESIGN.md §1); this does not decide
/// anything - a cache can be correct - but it is recorded in the evidence, and when such state exists the
/// order-independence exploration goes one level deeper (ordered triples). Returns (number of matching lines, files).
pub fn shared_state_scan() -> (u64, Vec<String>) {
    static SCAN: std::sync::OnceLock<(u64, Vec<String>)> = std::sync::OnceLock::new();
    SCAN.get_or_init(|| {
        let pats = ["static mut", "thread_local!", "Atomic", "Mutex<", "RwLock<", "OnceCell", "OnceLock", "lazy_static", "RefCell<", "Cell<", "unsafe "];
        let mut n = 0u64;
        let mut files = vec![];
        let mut stack = vec![std::path::PathBuf::from(format!("{}/src", repo()))];
        while let Some(dir) = stack.pop() {
            let Ok(rd) = std::fs::read_dir(&dir) else { continue };
            for e in rd.flatten() {
                let p = e.path();
                if p.is_dir() {
                    stack.push(p);
                } else if p.extension().map(|x| x == "rs").unwrap_or(false) && !p.to_string_lossy().contains("python") && !p.to_string_lossy().contains("kani") {
                    let Ok(text) = std::fs::read_to_string(&p) else { continue };
                    let hits = text.lines().filter(|l| !l.trim_start().starts_with("//") && (pats.iter().any(|q| l.contains(q)) || (l.trim_start().starts_with("static ") && !l.contains("&str") && !l.contains("&'static")))).count() as u64;
                    if hits > 0 {
                        n += hits;
                        files.push(p.to_string_lossy().to_string());
                    }
                }
            }
        }
        files.sort();
        (n, files)
    })
    .clone()
}

#[derive(Clone, Debug)]
pub struct Violation {
    pub check: String,
    pub sig: String,
    pub args: Vec<String>,
    pub expected: String,
    pub observed: String,
}

#[derive(Clone, Debug)]
pub struct Sample {
    pub check: String,
    pub args: Vec<String>,
    pub note: String,
}

/// Per-worker accumulator. Merged in deterministic (chunk index) order.
#[derive(Default, Clone)]
pub struct Local {
    pub evals: u64,
    pub transitions: u64,
    pub nontrivial: u64,
    pub dontcare: u64,
    pub outcomes: BTreeSet<u64>,
    pub viols: Vec<Violation>,
    pub sig_counts: BTreeMap<String, u64>,
    pub samples: Vec<Sample>,
    pub nt_samples: Vec<Sample>,
    pub metrics: BTreeMap<String, f64>,
    /// replay mode: print every verdict
    pub verbose: bool,
    pub verdicts: Vec<String>,
    /// keep the K smallest violations per signature instead of the K first (order-independent: BFS)
    pub keep_smallest: bool,
    /// name of the sub-check this accumulator belongs to (set by the engines)
    pub sub: String,
}

pub const KEEP_PER_SIG: u64 = 3;
const MAX_OUTCOMES: usize = 100_000;

impl Local {
    pub fn new() -> Self {
        Self::default()
    }
    /// The property held on this trace. `calls` = number of real API calls judged.
    #[inline]
    pub fn ok(&mut self, calls: u64, nontrivial: bool, outcome: u64) {
        if self.noncanonical_seen() {
            return;
        }
        self.evals += 1;
        self.transitions += calls;
        if nontrivial {
            self.nontrivial += 1;
        }
        if self.outcomes.len() < MAX_OUTCOMES {
            self.outcomes.insert(outcome);
        }
        if self.verbose {
            self.verdicts.push(format!("HOLDS (nontrivial={nontrivial}, outcome class={outcome})"));
        }
    }
    /// The statement is silent on this trace.
    #[inline]
    pub fn dc(&mut self, calls: u64) {
        if self.noncanonical_seen() {
            return;
        }
        self.evals += 1;
        self.transitions += calls;
        self.dontcare += 1;
        if self.verbose {
            self.verdicts.push("DONT-CARE (statement is silent on this trace)".into());
        }
    }
    /// A trace that would be judged 'holds' or 'don't care' on the denoted counts, but during which the implementation
    /// handed out a Duration whose nanosecond field is a century or more (oracle::dur::alpha noticed): the library's own
    /// ==, ordering and to_parts() then disagree with the value, so no statement about 'exactly' or 'equal' holds.
    fn noncanonical_seen(&mut self) -> bool {
        match crate::oracle::dur::take_noncanon() {
            Some(p) => {
                let check = if self.sub.is_empty() { "canonical".to_string() } else { self.sub.clone() };
                self.viol(&check, "noncanonical-duration-returned".into(), vec!["rerun".into()], "every Duration handed out has nanoseconds < one century (MAX excepted)".into(), format!("(centuries, nanoseconds) = {p:?}"));
                true
            }
            None => false,
        }
    }
    pub fn viol(&mut self, check: &str, sig: String, args: Vec<String>, expected: String, observed: String) {
        let _ = crate::oracle::dur::take_noncanon();
        self.evals += 1;
        self.transitions += 1;
        let full = format!("{check}/{sig}");
        let c = self.sig_counts.entry(full.clone()).or_insert(0);
        *c += 1;
        if self.verbose {
            self.verdicts.push(format!("VIOLATES sig={full}\n  expected: {expected}\n  observed: {observed}"));
        }
        if *c <= KEEP_PER_SIG {
            self.viols.push(Violation { check: check.to_string(), sig: full, args, expected, observed });
        } else if self.keep_smallest {
            // replace the largest retained one of this signature if the new one is smaller
            let key = |a: &Vec<String>| (a.len(), a.clone());
            let mut worst: Option<usize> = None;
            for (i, v) in self.viols.iter().enumerate() {
                if v.sig == full && worst.map(|w| key(&self.viols[w].args) < key(&v.args)).unwrap_or(true) {
                    worst = Some(i);
                }
            }
            if let Some(w) = worst {
                if key(&args) < key(&self.viols[w].args) {
                    self.viols[w] = Violation { check: check.to_string(), sig: full, args, expected, observed };
                }
            }
        }
    }
    pub fn sample(&mut self, check: &str, args: Vec<String>, note: String, nontrivial: bool) {
        let s = Sample { check: check.into(), args, note };
        if nontrivial {
            if self.nt_samples.len() < 3 {
                self.nt_samples.push(s);
            }
        } else if self.samples.len() < 2 {
            self.samples.push(s);
        }
    }
    #[inline]
    pub fn want_sample(&self, nontrivial: bool) -> bool {
        if nontrivial {
            self.nt_samples.len() < 3
        } else {
            self.samples.len() < 2
        }
    }
    pub fn metric_max(&mut self, name: &str, v: f64) {
        let e = self.metrics.entry(name.to_string()).or_insert(f64::MIN);
        if v > *e {
            *e = v;
        }
    }
    pub fn merge(&mut self, o: Local) {
        self.evals += o.evals;
        self.transitions += o.transitions;
        self.nontrivial += o.nontrivial;
        self.dontcare += o.dontcare;
        for x in o.outcomes {
            if self.outcomes.len() < MAX_OUTCOMES {
                self.outcomes.insert(x);
            }
        }
        for (k, v) in o.sig_counts {
            *self.sig_counts.entry(k).or_insert(0) += v;
        }
        for v in o.viols {
            self.viols.push(v);
        }
        if self.keep_smallest || o.keep_smallest {
            self.keep_smallest = true;
            self.viols.sort_by(|a, b| (&a.sig, a.args.len(), &a.args).cmp(&(&b.sig, b.args.len(), &b.args)));
        }
        // retain at most KEEP_PER_SIG per signature, in current order
        let mut seen: BTreeMap<String, u64> = BTreeMap::new();
        self.viols.retain(|v| {
            let c = seen.entry(v.sig.clone()).or_insert(0);
            *c += 1;
            *c <= KEEP_PER_SIG
        });
        for s in o.samples {
            if self.samples.len() < 2 {
                self.samples.push(s);
            }
        }
        for s in o.nt_samples {
            if self.nt_samples.len() < 3 {
                self.nt_samples.push(s);
            }
        }
        for (k, v) in o.metrics {
            let e = self.metrics.entry(k).or_insert(f64::MIN);
            if v > *e {
                *e = v;
            }
        }
    }
}

// ---------------------------------------------------------------------------------------------
// panic capture

thread_local! {
    static LAST_PANIC: RefCell<Option<(String, String)>> = const { RefCell::new(None) };
    static IN_GUARD: std::cell::Cell<bool> = const { std::cell::Cell::new(false) };
}

pub fn install_panic_hook() {
    std::panic::set_hook(Box::new(|info| {
        let msg = if let Some(s) = info.payload().downcast_ref::<&str>() {
            s.to_string()
        } else if let Some(s) = info.payload().downcast_ref::<String>() {
            s.clone()
        } else {
            "<non-string panic>".to_string()
        };
        let loc = info.location().map(|l| format!("{}:{}", l.file(), l.line())).unwrap_or_default();
        if loc.contains("/harness/src/") || loc.starts_with("src/") || !IN_GUARD.with(|g| g.get()) {
            eprintln!("HARNESS-PANIC at {loc}: {msg}");
            eprintln!("{}", std::backtrace::Backtrace::force_capture());
            if !IN_GUARD.with(|g| g.get()) {
                // a panic in the harness itself (oracle assertion, arithmetic slip): machinery failure, never a verdict
                eprintln!("MACHINERY: the harness panicked outside the code under test");
                std::process::exit(2);
            }
        }
        LAST_PANIC.with(|p| *p.borrow_mut() = Some((msg, loc)));
    }));
}

#[derive(Debug, Clone)]
pub struct Panicked {
    pub msg: String,
    pub loc: String,
}

impl Panicked {
    /// Normalised message class: stable under line moves and value changes.
    pub fn class(&self) -> String {
        let m = &self.msg;
        let table = [
            ("not a char boundary", "not-a-char-boundary"),
            ("invalid Gregorian date", "expect-invalid-gregorian"),
            ("non finite", "assert-finite"),
            ("when slicing", "slice-range"),
            ("attempt to subtract with overflow", "sub-overflow"),
            ("attempt to add with overflow", "add-overflow"),
            ("attempt to multiply with overflow", "mul-overflow"),
            ("attempt to negate with overflow", "neg-overflow"),
            ("attempt to divide by zero", "div-by-zero"),
            ("attempt to calculate the remainder", "rem-by-zero"),
            ("attempt to divide with overflow", "div-overflow"),
            ("attempt to shift", "shift-overflow"),
            ("not yet implemented", "todo"),
            ("unreachable", "unreachable"),
            ("out of range for slice", "slice-range"),
            ("index out of bounds", "index-oob"),
            ("out of bounds", "index-oob"),
            ("called `Result::unwrap()`", "unwrap-err"),
            ("called `Option::unwrap()`", "unwrap-none"),
            ("is_finite", "assert-finite"),
            ("assertion", "assertion"),
            ("slice index starts at", "slice-range"),
            ("begin <= end", "slice-range"),
            ("overflow", "overflow-other"),
        ];
        for (k, v) in table {
            if m.contains(k) {
                return v.to_string();
            }
        }
        "other".to_string()
    }
    pub fn in_harness(&self) -> bool {
        self.loc.contains("/harness/src/") || self.loc.starts_with("src/")
    }
}

/// Run a call into the code under test; a panic becomes an `Err`.
#[inline]
pub fn guard<T>(f: impl FnOnce() -> T) -> Result<T, Panicked> {
    IN_GUARD.with(|g| g.set(true));
    let r = catch_unwind(AssertUnwindSafe(f));
    IN_GUARD.with(|g| g.set(false));
    match r {
        Ok(v) => Ok(v),
        Err(_) => {
            let (msg, loc) = LAST_PANIC.with(|p| p.borrow_mut().take()).unwrap_or_default();
            let p = Panicked { msg, loc };
            if p.in_harness() {
                eprintln!("MACHINERY: panic inside the harness at {}: {}", p.loc, p.msg);
                std::process::exit(2);
            }
            Err(p)
        }
    }
}

// ---------------------------------------------------------------------------------------------
// known findings

#[derive(Debug, Clone)]
pub struct Finding {
    pub property: String,
    pub sig: String,
    pub what: String,
}

pub fn load_known_findings() -> Vec<Finding> {
    let path = format!("{}/KNOWN_FINDINGS.txt", verif());
    let mut out = vec![];
    let Ok(txt) = std::fs::read_to_string(&path) else { return out };
    for line in txt.lines() {
        let line = line.trim();
        if !line.starts_with("finding:") {
            continue;
        }
        let get = |key: &str| -> Option<String> {
            let k = format!("{key}=");
            let i = line.find(&k)? + k.len();
            let rest = &line[i..];
            if key == "what" {
                // up to " witness=" or end of line
                let end = rest.find(" witness=").unwrap_or(rest.len());
                Some(rest[..end].trim().to_string())
            } else {
                Some(rest.split_whitespace().next()?.to_string())
            }
        };
        if let (Some(p), Some(s)) = (get("property"), get("signature")) {
            out.push(Finding { property: p, sig: s, what: get("what").unwrap_or_default() });
        }
    }
    out
}

// ---------------------------------------------------------------------------------------------
// run report

pub struct Report {
    pub property: String,
    pub tier: String,
    pub seed: i64,
    pub start: Instant,
    pub total: Local,
    pub states: u64,
    pub seq_states: u64,
    pub seq_max_depth: u64,
    pub subs: Vec<Value>,
    pub bounds: BTreeMap<String, Value>,
    pub rule: String,
    pub assumptions: Vec<String>,
    pub exhaustive: bool,
    pub cap_note: Option<String>,
    pub deadline: Option<Instant>,
}

impl Report {
    pub fn new(property: &str, tier: &str) -> Self {
        let seed = std::env::var("VERIF_SEED").ok().and_then(|s| s.parse().ok()).unwrap_or(0);
        let cap_s: u64 = std::env::var("HMC_WALL_CAP_S")
            .ok()
            .and_then(|s| s.parse().ok())
            .unwrap_or(if tier == "quick" { 240 } else { 3000 });
        Self {
            property: property.to_string(),
            tier: tier.to_string(),
            seed,
            start: Instant::now(),
            total: Local::new(),
            states: 0,
            seq_states: 0,
            seq_max_depth: 0,
            subs: vec![],
            bounds: BTreeMap::new(),
            rule: String::new(),
            assumptions: vec![],
            exhaustive: true,
            cap_note: None,
            deadline: Some(Instant::now() + std::time::Duration::from_secs(cap_s)),
        }
    }
    pub fn quick(&self) -> bool {
        self.tier == "quick"
    }
    pub fn bound(&mut self, k: &str, v: impl Into<Value>) {
        self.bounds.insert(k.to_string(), v.into());
    }
    /// Record the outcome of one sub-check (a complete enumeration of one space).
    pub fn absorb(&mut self, sub: &str, states: u64, l: Local, wall: f64, complete: bool) {
        let nv: u64 = l.sig_counts.values().sum();
        self.subs.push(json!({
            "check": sub, "space": states, "evaluations": l.evals, "transitions": l.transitions,
            "distinct_nontrivial": l.nontrivial, "dont_care": l.dontcare,
            "distinct_outcomes": l.outcomes.len(), "violating_traces": nv, "wall_s": (wall*1000.0).round()/1000.0,
            "complete": complete,
        }));
        if !complete {
            self.exhaustive = false;
            self.cap_note = Some(format!("sub-check {sub} stopped at the wall cap after {} of {} cases", l.evals, states));
        }
        eprintln!(
            "  [{}] {sub}: space={states} evals={} calls={} nontrivial={} dontcare={} outcomes={} violating={} {:.2}s{}",
            self.property,
            l.evals,
            l.transitions,
            l.nontrivial,
            l.dontcare,
            l.outcomes.len(),
            nv,
            wall,
            if complete { "" } else { " (CAPPED)" }
        );
        self.states += states;
        // outcomes of different sub-checks must not merge
        let mut l = l;
        let salt = crate::engine::fnv(sub.as_bytes());
        l.outcomes = l.outcomes.into_iter().map(|o| o ^ salt).collect();
        self.total.merge(l);
    }

    /// Write evidence + replay files, print verdict lines, return the exit code.
    pub fn finish(mut self) -> i32 {
        let known = load_known_findings();
        let wall = self.start.elapsed().as_secs_f64();
        let replay_dir = format!("{}/replays/{}", verif(), self.property);
        let _ = std::fs::remove_dir_all(&replay_dir);
        let _ = std::fs::create_dir_all(&replay_dir);
        let mut sigs: Vec<(String, u64)> = self.total.sig_counts.iter().map(|(k, v)| (k.clone(), *v)).collect();
        sigs.sort();
        let mut unknown_sigs = vec![];
        let mut known_seen = vec![];
        for (sig, n) in &sigs {
            if let Some(f) = known.iter().find(|f| f.property == self.property && &f.sig == sig) {
                known_seen.push(json!({"signature": sig, "traces": n, "what": f.what}));
                println!("KNOWN-FINDING: property={} {} [signature={} traces={}]", self.property, f.what, sig, n);
            } else {
                unknown_sigs.push((sig.clone(), *n));
            }
        }
        self.total.viols.sort_by(|a, b| (&a.sig, &a.args).cmp(&(&b.sig, &b.args)));
        let mut nfile = 0;
        let mut printed: BTreeSet<String> = BTreeSet::new();
        for v in &self.total.viols {
            let is_known = known.iter().any(|f| f.property == self.property && f.sig == v.sig);
            let tag = if is_known { "known" } else { "viol" };
            let path = format!("{replay_dir}/{tag}-{:03}.json", nfile);
            nfile += 1;
            let body = json!({
                "property": self.property, "check": v.check, "signature": v.sig, "args": v.args,
                "expected": v.expected, "observed": v.observed, "known_finding": is_known,
                "replay": format!("./vf replay {path}"),
            });
            let _ = std::fs::write(&path, serde_json::to_string_pretty(&body).unwrap());
            if !is_known && !printed.contains(&v.sig) {
                printed.insert(v.sig.clone());
                let n = self.total.sig_counts.get(&v.sig).copied().unwrap_or(0);
                println!("VIOLATION property={} replay={} signature={} traces={} expected=[{}] observed=[{}]",
                    self.property, path, v.sig, n, v.expected, v.observed);
            }
        }
        let n_unknown: u64 = unknown_sigs.iter().map(|x| x.1).sum();
        let mut samples: Vec<Value> = vec![];
        for s in self.total.samples.iter().chain(self.total.nt_samples.iter()) {
            samples.push(json!({"check": s.check, "args": s.args, "note": s.note}));
        }
        if samples.is_empty() {
            samples.push(json!({"note": "no sample recorded"}));
        }
        let metrics: BTreeMap<String, f64> = self.total.metrics.clone();
        let mut coverage = json!({
            "states": self.states.max(1),
            "transitions": self.total.transitions.max(1),
            "traces_validated_against_impl": self.total.evals,
            "evaluations": self.total.evals,
            "distinct_nontrivial": self.total.nontrivial,
            "rule": self.rule,
            "samples": samples,
            "exhaustive": self.exhaustive,
            "dont_care": self.total.dontcare,
            "distinct_outcomes": self.total.outcomes.len(),
            "bounds": self.bounds,
            "sub_checks": self.subs,
            "metrics": metrics,
            "known_findings_seen": known_seen,
            "explanation": "states = size of the enumerated finite spaces (initial tuples of the lattices, plus unique (impl, model) states of the stateright BFS where used); transitions = real hifitime API calls judged against the reference model; every trace runs the model in lock-step with the implementation, so all explored traces are validated against the implementation",
        });
        if self.seq_states > 0 {
            coverage["stateright_unique_states"] = json!(self.seq_states);
            coverage["stateright_max_depth"] = json!(self.seq_max_depth);
        }
        if let Some(c) = &self.cap_note {
            coverage["cap"] = json!(c);
        }
        let ev = json!({
            "property_id": self.property,
            "tier": self.tier,
            "seed": self.seed,
            "level": "model_checking",
            "coverage": coverage,
            "assumptions": self.assumptions,
            "wall_s": (wall * 1000.0).round() / 1000.0,
            "violations": n_unknown,
        });
        let _ = std::fs::create_dir_all(format!("{}/evidence", verif()));
        let evp = format!("{}/evidence/{}.json", verif(), self.property);
        std::fs::write(&evp, serde_json::to_string_pretty(&ev).unwrap() + "\n").expect("write evidence");
        eprintln!(
            "[{}] tier={} states={} transitions={} traces={} nontrivial={} dontcare={} outcomes={} unknown-violations={} known-signatures={} exhaustive={} wall={:.1}s",
            self.property, self.tier, self.states, self.total.transitions, self.total.evals, self.total.nontrivial,
            self.total.dontcare, self.total.outcomes.len(), n_unknown, sigs.len() - unknown_sigs.len(), self.exhaustive, wall
        );
        if self.total.outcomes.len() < 2 && std::env::var("HMC_CHILD").is_err() {
            eprintln!("MACHINERY: vacuous exploration (fewer than 2 distinct outcomes)");
            return 2;
        }
        if n_unknown > 0 {
            1
        } else {
            println!("OK property={} tier={} traces={} transitions={}", self.property, self.tier, self.total.evals, self.total.transitions);
            0
        }
    }
}
