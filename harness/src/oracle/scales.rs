//! Reference model of the time scales: zero points derived from civil dates, not read from hifitime.
use super::civil::days1900;
use super::leap::{LeapTable, NS};
use hifitime::TimeScale;

pub const DAY: i128 = 86_400 * NS;

/// TAI count (ns since 1900-01-01 00:00:00 TAI) of the zero of a uniform scale
pub fn zero_tai(ts: TimeScale) -> Option<i128> {
    Some(match ts {
        TimeScale::TAI => 0,
        TimeScale::TT => -32_184_000_000, // TT = TAI + 32.184 s, both count from 1900-01-01 00:00:00 in the scale itself
        TimeScale::GPST | TimeScale::QZSST => days1900(1980, 1, 6) as i128 * DAY + 19 * NS,
        TimeScale::GST => days1900(1999, 8, 22) as i128 * DAY + 19 * NS,
        TimeScale::BDT => days1900(2006, 1, 1) as i128 * DAY + 33 * NS,
        _ => return None,
    })
}

/// count in `dst` of the instant whose count in `src` is `c`; both uniform
pub fn convert_uniform(c: i128, src: TimeScale, dst: TimeScale) -> i128 {
    c + zero_tai(src).unwrap() - zero_tai(dst).unwrap()
}

/// (days since 1900-01-01, ns of day) of count 0 in the scale itself
pub fn gregorian_zero(ts: TimeScale) -> (i64, i128) {
    match ts {
        TimeScale::TAI | TimeScale::TT | TimeScale::UTC => (0, 0),
        TimeScale::ET | TimeScale::TDB => (days1900(2000, 1, 1), 12 * 3600 * NS),
        TimeScale::GPST | TimeScale::QZSST => (days1900(1980, 1, 6), 0),
        TimeScale::GST => (days1900(1999, 8, 22), 0),
        TimeScale::BDT => (days1900(2006, 1, 1), 0),
        _ => (0, 0),
    }
}

/// TAI count of an epoch given by (scale, count); exact for the uniform scales and UTC; None for ET/TDB
pub fn to_tai(c: i128, src: TimeScale, leap: &LeapTable) -> Option<i128> {
    match src {
        TimeScale::UTC => Some(leap.utc_to_tai(c)),
        TimeScale::ET | TimeScale::TDB => None,
        _ => Some(c + zero_tai(src)?),
    }
}

/// count in `dst` of the TAI count `t`; None where undefined (inside an inserted UTC interval; ET/TDB)
pub fn from_tai(t: i128, dst: TimeScale, leap: &LeapTable) -> Option<i128> {
    match dst {
        TimeScale::UTC => leap.tai_to_utc(t),
        TimeScale::ET | TimeScale::TDB => None,
        _ => Some(t - zero_tai(dst)?),
    }
}

pub fn self_test() {
    assert_eq!(zero_tai(TimeScale::GPST), Some(2_524_953_619 * NS));
    assert_eq!(zero_tai(TimeScale::GST), Some(3_144_268_819 * NS));
    assert_eq!(zero_tai(TimeScale::BDT), Some(3_345_062_433 * NS));
    assert_eq!(days1900(2000, 1, 1) as i128 * DAY + 12 * 3600 * NS, 3_155_716_800 * NS);
}
