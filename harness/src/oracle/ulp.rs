//! Exact float helpers: the oracle's own rounding never decides a verdict.

/// decode a finite f64 into (sign, mantissa, exponent) with value = sign * m * 2^e, m < 2^53
pub fn decode(x: f64) -> (i128, u64, i32) {
    let b = x.to_bits();
    let sign = if b >> 63 == 1 { -1 } else { 1 };
    let exp = ((b >> 52) & 0x7ff) as i32;
    let frac = b & ((1u64 << 52) - 1);
    if exp == 0 {
        (sign, frac, -1074)
    } else {
        (sign, frac | (1u64 << 52), exp - 1075)
    }
}

/// trunc(x) as i128, saturating; x finite
pub fn trunc_i128(x: f64) -> i128 {
    let (s, m, e) = decode(x);
    if m == 0 {
        return 0;
    }
    let v: i128 = if e >= 0 {
        if e >= 75 {
            i128::MAX
        } else {
            (m as i128) << e
        }
    } else if -e >= 64 {
        0
    } else {
        (m >> (-e)) as i128
    };
    if s < 0 {
        if v == i128::MAX {
            i128::MIN
        } else {
            -v
        }
    } else {
        v
    }
}

/// correctly rounded (nearest-even) f64 of p/q, q > 0, |p| < 2^100, q < 2^64
pub fn ratio_to_f64(p: i128, q: i128) -> f64 {
    assert!(q > 0);
    if p == 0 {
        return 0.0;
    }
    let neg = p < 0;
    let n = p.unsigned_abs();
    let d = q as u128;
    let bn = 128 - n.leading_zeros() as i32;
    let k = 127 - bn; // n << k fits in 127 bits
    let num = n << k;
    let qq = num / d;
    let rem = num % d;
    let bits = 128 - qq.leading_zeros() as i32;
    assert!(bits > 54);
    let shift = bits - 53;
    let mut mant = qq >> shift;
    let rest = qq & ((1u128 << shift) - 1);
    let half = 1u128 << (shift - 1);
    if rest > half || (rest == half && (rem != 0 || mant & 1 == 1)) {
        mant += 1;
    }
    let v = (mant as f64) * pow2(shift - k);
    if neg {
        -v
    } else {
        v
    }
}

pub fn pow2(e: i32) -> f64 {
    // exact for the normal range
    assert!((-1022..=1023).contains(&e), "pow2 out of normal range: {e}");
    f64::from_bits(((e + 1023) as u64) << 52)
}

/// order-preserving integer image of a float (for ulp distances)
pub fn ord(x: f64) -> i64 {
    let b = x.to_bits() as i64;
    if b < 0 {
        i64::MIN - b
    } else {
        b
    }
}

pub fn ulp_dist(a: f64, b: f64) -> u64 {
    (ord(a) as i128 - ord(b) as i128).unsigned_abs().min(u64::MAX as u128) as u64
}

pub fn ulp_of(x: f64) -> f64 {
    let x = x.abs();
    crate::lattice::next_up(x) - x
}

/// is `r` within `k` ulps of the exact rational p/q, where the ulp is that of max(|p/q|, floor_mag)?
/// Returns (ok, distance in ulps as a float, for reporting)
pub fn within_ulps(r: f64, p: i128, q: i128, k: u64, floor_mag: f64) -> (bool, f64) {
    if !r.is_finite() {
        return (false, f64::INFINITY);
    }
    let reference = ratio_to_f64(p, q);
    let mag = reference.abs().max(floor_mag);
    let u = ulp_of(mag);
    let diff = (r - reference).abs(); // exact or correctly rounded; r and reference are close when it matters
    let d = diff / u;
    (d <= k as f64, d)
}

pub fn self_test() {
    assert_eq!(decode(1.0), (1, 1 << 52, -52));
    assert_eq!(trunc_i128(1.9), 1);
    assert_eq!(trunc_i128(-1.9), -1);
    assert_eq!(trunc_i128(1e30), 1_000_000_000_000_000_019_884_624_838_656);
    assert_eq!(trunc_i128(f64::MAX), i128::MAX);
    assert_eq!(trunc_i128(-f64::MAX), i128::MIN);
    assert_eq!(trunc_i128(5e-324), 0);
    assert_eq!(ratio_to_f64(1, 3), 1.0 / 3.0);
    assert_eq!(ratio_to_f64(-1, 10), -0.1);
    assert_eq!(ratio_to_f64(3_155_760_000_000_000_000, 1_000_000_000), 3_155_760_000.0);
    assert_eq!(ratio_to_f64(1, 3_155_760_000_000_000_000), 1.0 / 3_155_760_000_000_000_000.0);
    assert_eq!(ratio_to_f64((1 << 53) + 1, 1), 9007199254740992.0);
    assert_eq!(ratio_to_f64((1 << 53) + 3, 1), 9007199254740996.0);
    assert_eq!(ulp_dist(1.0, crate::lattice::next_up(1.0)), 1);
    assert_eq!(ulp_dist(-0.0, 0.0), 0);
    assert_eq!(ulp_dist(-f64::from_bits(1), f64::from_bits(1)), 2);
    for i in 0..2000u32 {
        let p = (i as i128 * 7919 + 13) * 1_000_003;
        let q = (i as i128 * 104_729 + 7) | 1;
        // within one ulp of the hardware division of the nearest floats
        assert!(ulp_dist(ratio_to_f64(p, q), p as f64 / q as f64) <= 1);
    }
}
