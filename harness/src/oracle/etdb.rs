//! Closed forms of ET-TAI (NAIF kernel constants, parsed from naif0012.txt) and TDB-TAI (ESA constants of the statement).
pub struct EtDb {
    pub delta_t_a: f64,
    pub k: f64,
    pub eb: f64,
    pub m0: f64,
    pub m1: f64,
}
impl EtDb {
    pub fn new(c: [f64; 5]) -> Self {
        Self { delta_t_a: c[0], k: c[1], eb: c[2], m0: c[3], m1: c[4] }
    }
    /// ET - TAI - 32.184 s, in seconds, at t = seconds past J2000 (ET)
    pub fn et_periodic(&self, t: f64) -> f64 {
        let m = self.m0 + self.m1 * t;
        let e = m + self.eb * m.sin();
        self.k * e.sin()
    }
    /// TDB - TAI - 32.184 s, in seconds, at t = seconds past J2000 (TDB)
    pub fn tdb_periodic(&self, t: f64) -> f64 {
        let g = 357.528_f64.to_radians() + 1.990_910_018_065_731e-7 * t;
        0.001_658 * (g + 0.0167 * g.sin()).sin()
    }
}
