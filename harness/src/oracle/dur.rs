//! Reference model of durations: one signed i128 nanosecond count, clamped to the representable range.
//! Independent of hifitime's arithmetic: only `from_parts` (with n < NPC) and `to_parts` are trusted.
use hifitime::{Duration, Unit};

pub const NS_S: i128 = 1_000_000_000;
pub const NS_DAY: i128 = 86_400 * NS_S;
/// nanoseconds per (Julian) century, computed here, not imported
pub const NPC: i128 = 36_525 * NS_DAY;
pub const DMIN: i128 = -32_768 * NPC;
pub const DMAX: i128 = 32_768 * NPC;

pub const UNITS: [Unit; 9] = [
    Unit::Nanosecond,
    Unit::Microsecond,
    Unit::Millisecond,
    Unit::Second,
    Unit::Minute,
    Unit::Hour,
    Unit::Day,
    Unit::Week,
    Unit::Century,
];

/// the harness's own factor table (nanoseconds per unit)
pub fn unit_ns(u: Unit) -> i128 {
    match u {
        Unit::Nanosecond => 1,
        Unit::Microsecond => 1_000,
        Unit::Millisecond => 1_000_000,
        Unit::Second => NS_S,
        Unit::Minute => 60 * NS_S,
        Unit::Hour => 3_600 * NS_S,
        Unit::Day => NS_DAY,
        Unit::Week => 7 * NS_DAY,
        Unit::Century => NPC,
    }
}

/// abstraction function: the count a (centuries, nanoseconds) pair denotes
#[inline]
pub fn alpha(d: Duration) -> i128 {
    let (c, n) = d.to_parts();
    if (n as i128) > NPC || (n as i128 == NPC && c != i16::MAX) {
        // a denormalised value escaped from the implementation: remembered, and turned into a violation by the
        // verdict that follows (report::Local::ok / dc), because alpha would otherwise hide it
        NONCANON.with(|f| f.set(Some((c, n))));
    }
    c as i128 * NPC + n as i128
}

thread_local! {
    pub static NONCANON: std::cell::Cell<Option<(i16, u64)>> = const { std::cell::Cell::new(None) };
}

#[inline]
pub fn take_noncanon() -> Option<(i16, u64)> {
    NONCANON.with(|f| f.take())
}

#[inline]
pub fn canonical(d: Duration) -> bool {
    let (c, n) = d.to_parts();
    (n as i128) < NPC || (c == i16::MAX && n as i128 == NPC)
}

#[inline]
pub fn clamp(v: i128) -> i128 {
    v.clamp(DMIN, DMAX)
}

/// Build the duration that denotes `v` (must be within range) from raw parts.
#[inline]
pub fn mk(v: i128) -> Duration {
    debug_assert!((DMIN..=DMAX).contains(&v));
    if v == DMAX {
        return Duration::from_parts(i16::MAX, NPC as u64);
    }
    let c = v.div_euclid(NPC);
    let n = v.rem_euclid(NPC);
    Duration::from_parts(c as i16, n as u64)
}

pub fn show(d: Duration) -> String {
    let (c, n) = d.to_parts();
    format!("({c},{n})")
}

pub fn enc(v: i128) -> String {
    v.to_string()
}

/// human-readable position of a count relative to century anchors
pub fn describe(v: i128) -> String {
    let c = v.div_euclid(NPC);
    let n = v.rem_euclid(NPC);
    format!("{v} = {c}c+{n}ns")
}

pub fn floor_to(a: i128, s: i128) -> i128 {
    let s = s.abs();
    a.div_euclid(s) * s
}

/// integer decomposition of a magnitude into (days, h, min, s, ms, us, ns)
pub fn decompose(v: i128) -> (i8, u64, u64, u64, u64, u64, u64, u64) {
    let sign = if v < 0 { -1 } else if v > 0 { 1 } else { 0 };
    let t = v.unsigned_abs();
    (
        sign,
        (t / NS_DAY as u128) as u64,
        ((t / (3_600 * NS_S as u128)) % 24) as u64,
        ((t / (60 * NS_S as u128)) % 60) as u64,
        ((t / NS_S as u128) % 60) as u64,
        ((t / 1_000_000) % 1000) as u64,
        ((t / 1_000) % 1000) as u64,
        (t % 1000) as u64,
    )
}

/// Defect model D1 (KNOWN_FINDINGS): `total_nanoseconds` of the pinned tree returns c*NPC - n for c <= -2.
pub fn d1_total(d: Duration) -> i128 {
    let (c, n) = d.to_parts();
    if c <= -2 {
        c as i128 * NPC - n as i128
    } else {
        c as i128 * NPC + n as i128
    }
}
pub fn in_d1_domain(d: Duration) -> bool {
    let (c, n) = d.to_parts();
    c <= -2 && n != 0
}

pub fn self_test() {
    assert_eq!(NPC, 3_155_760_000_000_000_000);
    for v in [0, 1, -1, NPC, -NPC, NPC - 1, -NPC - 1, DMIN, DMAX, DMAX - 1, DMIN + 1, 5 * NPC + 17, -5 * NPC - 17] {
        let d = mk(v);
        assert_eq!(alpha(d), v, "mk/alpha disagree on {v}: from_parts/to_parts are not the trusted identity");
        assert!(canonical(d));
    }
    assert_eq!(floor_to(-7, 5), -10);
    assert_eq!(floor_to(7, -5), 5);
    assert_eq!(decompose(-(NS_DAY + 1)), (-1, 1, 0, 0, 0, 0, 0, 1));
}
