pub mod dur;
