pub mod dur;
pub mod ulp;
pub mod civil;
pub mod etdb;
pub mod leap;
pub mod scales;
pub mod text;
