//! The IERS leap second list, parsed at check time from the two data files shipped with the sources,
//! cross-checked against a digest compiled into the harness. Does not use hifitime's LatestLeapSeconds.
use super::civil;

/// (NTP timestamp = UTC seconds since 1900-01-01, TAI-UTC in seconds)
pub const DIGEST: [(i64, i64); 28] = [
    (2_272_060_800, 10),
    (2_287_785_600, 11),
    (2_303_683_200, 12),
    (2_335_219_200, 13),
    (2_366_755_200, 14),
    (2_398_291_200, 15),
    (2_429_913_600, 16),
    (2_461_449_600, 17),
    (2_492_985_600, 18),
    (2_524_521_600, 19),
    (2_571_782_400, 20),
    (2_603_318_400, 21),
    (2_634_854_400, 22),
    (2_698_012_800, 23),
    (2_776_982_400, 24),
    (2_840_140_800, 25),
    (2_871_676_800, 26),
    (2_918_937_600, 27),
    (2_950_473_600, 28),
    (2_982_009_600, 29),
    (3_029_443_200, 30),
    (3_076_704_000, 31),
    (3_124_137_600, 32),
    (3_345_062_400, 33),
    (3_439_756_800, 34),
    (3_550_089_600, 35),
    (3_644_697_600, 36),
    (3_692_217_600, 37),
];

/// SOFA pre-1972 entries (not announced by IERS): timestamps only, used to place lattice windows
pub const SOFA_TS: [i64; 14] = [
    1_893_369_600, 1_924_992_000, 1_943_308_800, 1_956_528_000, 2_014_329_600, 2_019_600_000, 2_027_462_400, 2_040_681_600, 2_051_222_400, 2_056_320_000, 2_066_860_800,
    2_072_217_600, 2_082_758_400, 2_148_508_800,
];
pub const SOFA_DAT: [f64; 14] = [1.417818, 1.422818, 1.372818, 1.845858, 1.945858, 3.24013, 3.34013, 3.44013, 3.54013, 3.64013, 3.74013, 3.84013, 4.31317, 4.21317];

pub const NS: i128 = 1_000_000_000;

#[derive(Clone, Debug)]
pub struct LeapTable {
    pub entries: Vec<(i64, i64)>,
}

pub fn parse_iers_list(path: &str) -> Result<Vec<(i64, i64)>, String> {
    let txt = std::fs::read_to_string(path).map_err(|e| format!("{path}: {e}"))?;
    let mut v = vec![];
    for line in txt.lines() {
        let line = line.trim();
        if line.is_empty() || line.starts_with('#') {
            continue;
        }
        let mut it = line.split_whitespace();
        let ts: i64 = it.next().ok_or("no ts")?.parse().map_err(|e| format!("{e}"))?;
        let dat: i64 = it.next().ok_or("no dat")?.parse().map_err(|e| format!("{e}"))?;
        v.push((ts, dat));
    }
    Ok(v)
}

pub fn parse_naif(path: &str) -> Result<(Vec<(i64, i64)>, [f64; 5]), String> {
    let txt = std::fs::read_to_string(path).map_err(|e| format!("{path}: {e}"))?;
    let fnum = |s: &str| -> Result<f64, String> { s.trim().replace('D', "E").parse::<f64>().map_err(|e| format!("{s}: {e}")) };
    let mut consts = [0f64; 5]; // DELTA_T_A, K, EB, M0, M1
    let mut entries = vec![];
    let mut in_dat = false;
    for line in txt.lines() {
        let l = line.trim();
        if let Some(r) = l.strip_prefix("DELTET/DELTA_T_A") {
            consts[0] = fnum(r.trim_start_matches([' ', '=']))?;
        } else if let Some(r) = l.strip_prefix("DELTET/K") {
            consts[1] = fnum(r.trim_start_matches([' ', '=']))?;
        } else if let Some(r) = l.strip_prefix("DELTET/EB") {
            consts[2] = fnum(r.trim_start_matches([' ', '=']))?;
        } else if let Some(r) = l.strip_prefix("DELTET/M ") {
            let r = r.replace(['(', ')', '='], " ");
            let parts: Vec<&str> = r.split_whitespace().collect();
            consts[3] = fnum(parts[0])?;
            consts[4] = fnum(parts[1])?;
        }
        let body = if let Some(r) = l.strip_prefix("DELTET/DELTA_AT") {
            in_dat = true;
            r.to_string()
        } else if in_dat {
            l.to_string()
        } else {
            continue;
        };
        // tokens like "10," "@1972-JAN-1"
        let cleaned = body.replace(['(', '=', ','], " ");
        let done = cleaned.contains(')');
        let cleaned = cleaned.replace(')', " ");
        let toks: Vec<&str> = cleaned.split_whitespace().collect();
        let mut i = 0;
        while i + 1 < toks.len() {
            let dat: i64 = toks[i].parse().map_err(|e| format!("{}: {e}", toks[i]))?;
            let date = toks[i + 1].trim_start_matches('@');
            let p: Vec<&str> = date.split('-').collect();
            let y: i64 = p[0].parse().map_err(|e| format!("{e}"))?;
            let m = match p[1] {
                "JAN" => 1,
                "JUL" => 7,
                other => return Err(format!("unexpected month {other}")),
            };
            let d: i64 = p[2].parse().map_err(|e| format!("{e}"))?;
            entries.push((civil::days1900(y, m, d) * 86_400, dat));
            i += 2;
        }
        if done {
            in_dat = false;
        }
    }
    Ok((entries, consts))
}

impl LeapTable {
    /// loads both files, checks the three-way agreement (a mismatch is a machinery error: the oracle's
    /// own inputs changed, which must be reported rather than silently moving the oracle)
    pub fn load() -> Result<(Self, [f64; 5]), String> {
        let a = parse_iers_list(&format!("{}/data/leap-seconds.list", crate::report::repo()))?;
        let (b, consts) = parse_naif(&format!("{}/naif0012.txt", crate::report::repo()))?;
        if a != DIGEST {
            return Err("data/leap-seconds.list differs from the digest of the 28 IERS entries compiled into the harness".into());
        }
        if b != DIGEST {
            return Err("naif0012.txt DELTET/DELTA_AT differs from the digest of the 28 IERS entries compiled into the harness".into());
        }
        Ok((Self { entries: a }, consts))
    }
    pub fn from_prefix(&self, n: usize) -> Self {
        Self { entries: self.entries[..n].to_vec() }
    }
    /// TAI-UTC (ns) in force at UTC count `u` (ns since 1900-01-01 UTC)
    pub fn dat_utc(&self, u: i128) -> i128 {
        let mut d = 0;
        for (ts, dat) in &self.entries {
            if *ts as i128 * NS <= u {
                d = *dat as i128 * NS;
            } else {
                break;
            }
        }
        d
    }
    pub fn utc_to_tai(&self, u: i128) -> i128 {
        u + self.dat_utc(u)
    }
    /// inverse of utc_to_tai on its image; None inside an inserted interval
    pub fn tai_to_utc(&self, t: i128) -> Option<i128> {
        let mut prev = 0i128;
        let mut ans = Some(t); // before the first entry: offset 0
        for (ts, dat) in &self.entries {
            let ts = *ts as i128 * NS;
            let d = *dat as i128 * NS;
            if t >= ts + d {
                ans = Some(t - d);
            } else if t >= ts + prev {
                ans = None; // inside the inserted interval of this entry
            } else {
                break;
            }
            prev = d;
        }
        ans
    }
    /// for a TAI count inside an inserted interval: (utc just before the interval, inserted amount)
    pub fn inserted_interval(&self, t: i128) -> Option<(i128, i128)> {
        let mut prev = 0i128;
        for (ts, dat) in &self.entries {
            let ts = *ts as i128 * NS;
            let d = *dat as i128 * NS;
            if t >= ts + prev && t < ts + d {
                return Some((ts, d - prev));
            }
            prev = d;
        }
        None
    }
    /// the civil days (days since 1900-01-01) whose 23:59:60 is a valid IERS leap second: day before entries 2..28
    pub fn leap_days(&self) -> Vec<i64> {
        self.entries.iter().skip(1).map(|(ts, _)| ts / 86_400 - 1).collect()
    }
}

pub fn self_test() {
    let (t, consts) = LeapTable::load().unwrap_or_else(|e| {
        eprintln!("MACHINERY: leap table oracle: {e}");
        std::process::exit(2)
    });
    assert_eq!(t.entries.len(), 28);
    assert_eq!(consts, [32.184, 1.657e-3, 1.671e-2, 6.239996, 1.99096871e-7]);
    // 2017-01-01
    let u = civil::days1900(2017, 1, 1) as i128 * 86_400 * NS;
    assert_eq!(t.dat_utc(u), 37 * NS);
    assert_eq!(t.dat_utc(u - 1), 36 * NS);
    assert_eq!(t.tai_to_utc(u + 37 * NS), Some(u));
    assert_eq!(t.tai_to_utc(u + 37 * NS - 1), None);
    assert_eq!(t.tai_to_utc(u + 36 * NS - 1), Some(u - 1));
    assert_eq!(t.inserted_interval(u + 36 * NS), Some((u, NS)));
    let u72 = civil::days1900(1972, 1, 1) as i128 * 86_400 * NS;
    assert_eq!(t.tai_to_utc(u72 - 1), Some(u72 - 1));
    assert_eq!(t.tai_to_utc(u72), None);
    assert_eq!(t.tai_to_utc(u72 + 10 * NS), Some(u72));
    for (ts, _) in &t.entries {
        let (y, m, d) = civil::civil1900(ts / 86_400);
        assert!(ts % 86_400 == 0 && d == 1 && (m == 1 || m == 7) && y >= 1972);
    }
}
