//! Proleptic Gregorian calendar arithmetic (Hinnant's era algorithm), independent of hifitime's gregorian.rs.

/// days since 1970-01-01 of the civil date (proleptic Gregorian)
pub fn days_from_civil(y: i64, m: i64, d: i64) -> i64 {
    let y = if m <= 2 { y - 1 } else { y };
    let era = y.div_euclid(400);
    let yoe = y - era * 400;
    let mp = (m + 9) % 12;
    let doy = (153 * mp + 2) / 5 + d - 1;
    let doe = yoe * 365 + yoe / 4 - yoe / 100 + doy;
    era * 146_097 + doe - 719_468
}

pub fn civil_from_days(z: i64) -> (i64, i64, i64) {
    let z = z + 719_468;
    let era = z.div_euclid(146_097);
    let doe = z - era * 146_097;
    let yoe = (doe - doe / 1460 + doe / 36_524 - doe / 146_096) / 365;
    let y = yoe + era * 400;
    let doy = doe - (365 * yoe + yoe / 4 - yoe / 100);
    let mp = (5 * doy + 2) / 153;
    let d = doy - (153 * mp + 2) / 5 + 1;
    let m = if mp < 10 { mp + 3 } else { mp - 9 };
    (if m <= 2 { y + 1 } else { y }, m, d)
}

/// 1970-01-01 is 25 567 days after 1900-01-01
pub const D1900_TO_1970: i64 = 25_567;

/// days since 1900-01-01 (hifitime's TAI/UTC/TT zero date)
pub fn days1900(y: i64, m: i64, d: i64) -> i64 {
    days_from_civil(y, m, d) + D1900_TO_1970
}
pub fn civil1900(days: i64) -> (i64, i64, i64) {
    civil_from_days(days - D1900_TO_1970)
}

pub fn is_leap(y: i64) -> bool {
    (y % 4 == 0 && y % 100 != 0) || y % 400 == 0
}
pub fn month_len(y: i64, m: i64) -> i64 {
    match m {
        1 | 3 | 5 | 7 | 8 | 10 | 12 => 31,
        4 | 6 | 9 | 11 => 30,
        2 => {
            if is_leap(y) {
                29
            } else {
                28
            }
        }
        _ => 0,
    }
}
pub fn year_len(y: i64) -> i64 {
    if is_leap(y) {
        366
    } else {
        365
    }
}
/// 0 = Monday ... 6 = Sunday; 1900-01-01 was a Monday
pub fn weekday1900(days: i64) -> i64 {
    days.rem_euclid(7)
}
/// 1-based day of year
pub fn day_of_year(y: i64, m: i64, d: i64) -> i64 {
    days_from_civil(y, m, d) - days_from_civil(y, 1, 1) + 1
}

pub fn self_test() {
    assert_eq!(days_from_civil(1970, 1, 1), 0);
    assert_eq!(days1900(1900, 1, 1), 0);
    assert_eq!(days1900(1970, 1, 1), 25_567);
    assert_eq!(days_from_civil(1858, 11, 17) + 40_587, 0, "MJD 0 = 1858-11-17");
    assert_eq!(days1900(2000, 1, 1), 36_524);
    assert_eq!(weekday1900(days1900(2000, 1, 1)), 5, "2000-01-01 was a Saturday");
    assert_eq!(weekday1900(days1900(1900, 1, 1)), 0);
    assert_eq!(weekday1900(days1900(2024, 2, 29)), 3, "2024-02-29 was a Thursday");
    assert_eq!(days1900(1980, 1, 6), 29_224);
    // mutual inverses over the whole swept range, month lengths and year lengths consistent
    let lo = days1900(-30_001, 1, 1);
    let hi = days1900(30_001, 12, 31);
    let mut prev = civil1900(lo - 1);
    let mut z = lo;
    while z <= hi {
        let (y, m, d) = civil1900(z);
        assert_eq!(days1900(y, m, d), z);
        // successor relation
        let (py, pm, pd) = prev;
        let expect = if pd < month_len(py, pm) { (py, pm, pd + 1) } else if pm < 12 { (py, pm + 1, 1) } else { (py + 1, 1, 1) };
        assert_eq!((y, m, d), expect, "civil successor broken at {z}");
        prev = (y, m, d);
        z += 1;
    }
}
