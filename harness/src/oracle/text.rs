//! Reference renderers (no hifitime formatting code).
use super::civil::civil1900;
use super::scales::gregorian_zero;
use hifitime::TimeScale;

pub const NS_S: i128 = 1_000_000_000;
pub const NS_DAY: i128 = 86_400 * NS_S;

pub fn scale_str(ts: TimeScale) -> &'static str {
    match ts {
        TimeScale::TAI => "TAI",
        TimeScale::TT => "TT",
        TimeScale::ET => "ET",
        TimeScale::TDB => "TDB",
        TimeScale::UTC => "UTC",
        TimeScale::GPST => "GPST",
        TimeScale::GST => "GST",
        TimeScale::BDT => "BDT",
        TimeScale::QZSST => "QZSST",
        _ => "?",
    }
}

/// civil fields of count `c` (ns) in scale `ts`: (year, month, day, hour, minute, second, nanos)
pub fn fields(c: i128, ts: TimeScale) -> (i64, i64, i64, i64, i64, i64, i64) {
    let (zd, zt) = gregorian_zero(ts);
    let total = c + zt;
    let days = total.div_euclid(NS_DAY) as i64 + zd;
    let tod = total.rem_euclid(NS_DAY);
    let (y, m, d) = civil1900(days);
    let s = tod / NS_S;
    (y, m, d, (s / 3600) as i64, ((s / 60) % 60) as i64, (s % 60) as i64, (tod % NS_S) as i64)
}

/// YYYY-MM-DDTHH:MM:SS[.fffffffff] (no scale)
pub fn render_dt(f: (i64, i64, i64, i64, i64, i64, i64)) -> String {
    let (y, m, d, h, mi, s, ns) = f;
    if ns == 0 {
        format!("{y:04}-{m:02}-{d:02}T{h:02}:{mi:02}:{s:02}")
    } else {
        format!("{y:04}-{m:02}-{d:02}T{h:02}:{mi:02}:{s:02}.{ns:09}")
    }
}

/// default display form of an epoch
pub fn render(c: i128, ts: TimeScale) -> String {
    format!("{} {}", render_dt(fields(c, ts)), scale_str(ts))
}

pub const MONTHS: [&str; 12] = ["January", "February", "March", "April", "May", "June", "July", "August", "September", "October", "November", "December"];
pub const WEEKDAYS: [&str; 7] = ["Monday", "Tuesday", "Wednesday", "Thursday", "Friday", "Saturday", "Sunday"];

/// human-readable form of a duration of `v` ns
pub fn render_duration(v: i128) -> String {
    if v == 0 {
        return "0 ns".to_string();
    }
    let (sign, d, h, m, s, ms, us, ns) = super::dur::decompose(v);
    let mut out = String::new();
    if sign < 0 {
        out.push('-');
    }
    let vals = [d, h, m, s, ms, us, ns];
    let units = [if d > 1 { "days" } else { "day" }, "h", "min", "s", "ms", "μs", "ns"];
    let mut first = true;
    for (val, unit) in vals.iter().zip(units.iter()) {
        if *val > 0 {
            if !first {
                out.push(' ');
            }
            out.push_str(&format!("{val} {unit}"));
            first = false;
        }
    }
    out
}
