//! C12 Epoch equality and ordering are chronological, whatever the time scales.
use super::common::*;
use crate::engine::sweep;
use crate::lattice::J2000_TAI;
use crate::oracle::dur::*;
use crate::oracle::leap::{LeapTable, DIGEST, NS};
use crate::oracle::scales;
use crate::report::{guard, Local, Report};
use hifitime::{Epoch, TimeScale};
use std::cmp::Ordering;

/// one epoch of the lattice: scale, count in that scale, TAI instant it denotes, exact (false for ET/TDB)
#[derive(Clone, Copy, Debug)]
pub struct Pt {
    pub ts: TimeScale,
    pub c: i128,
    pub tai: i128,
    pub exact: bool,
}

pub fn tai_lattice(thorough: bool, deep: bool) -> Vec<i128> {
    let mut v = vec![];
    let mut zeros: Vec<i128> = vec![0, J2000_TAI - 32_184_000_000, -32_184_000_000];
    for s in [TimeScale::GPST, TimeScale::GST, TimeScale::BDT] {
        zeros.push(scales::zero_tai(s).unwrap());
    }
    for z in &zeros {
        for o in [0i128, 1, NS, 86_400 * NS, NPC / 2] {
            v.push(z + o);
            v.push(z - o); // pairs symmetric about each scale's zero
        }
        v.push(z + NPC);
        v.push(z - NPC);
        v.push(z + NPC - 1);
        v.push(z - NPC + 1);
    }
    // two leap seconds (1972-07-01 and 2017-01-01), both sides, in UTC and TAI terms
    for (ts, d) in [DIGEST[1], DIGEST[27], DIGEST[0]] {
        for base in [ts as i128 * NS, (ts + d) as i128 * NS, (ts + d - 1) as i128 * NS] {
            for o in [-NS, -1, 0, 1, NS] {
                v.push(base + o);
            }
        }
    }
    if thorough {
        for (ts, d) in DIGEST {
            for o in [-1i128, 0, 1] {
                v.push((ts + d) as i128 * NS + o);
                v.push((ts + d - 1) as i128 * NS + o);
            }
        }
        for c in [-3i128, -2, 2, 3, 50, -50] {
            v.push(c * NPC);
            v.push(c * NPC + 1);
            v.push(c * NPC - 1);
        }
    }
    // pairs of instants exactly TWICE the distance of two scales' zero points apart (the difference of their counts in those
    // two scales is then minus the offset: the x == -x trap of Duration equality)
    for (i, zi) in zeros.iter().enumerate() {
        for zj in zeros.iter().skip(i + 1) {
            for base in [0i128, *zi, 1_000_000_000 * NS + 5] {
                v.push(base);
                v.push(base + 2 * (zi - zj));
                v.push(base - 2 * (zi - zj));
            }
        }
    }
    if deep {
        // thorough tier: both sides of EVERY table entry at finer offsets, every whole and half second within 40 s of
        // the 2017 leap second, finer offsets round each scale's zero, more century boundaries
        for (ts, d) in DIGEST {
            for base in [ts as i128 * NS, (ts + d) as i128 * NS, (ts + d - 1) as i128 * NS] {
                for o in [-2 * NS, -NS - 1, -NS, -NS + 1, -2, 2, NS - 1, NS, NS + 1, 2 * NS, NS / 2] {
                    v.push(base + o);
                }
            }
        }
        let (ts, d) = DIGEST[27];
        for k in -80i128..=80 {
            v.push((ts + d) as i128 * NS + k * NS / 2);
        }
        for z in &zeros {
            for o in [2i128, 1_000, 60 * NS, 3_600 * NS, 7 * 86_400 * NS, NPC / 2 + 1, NPC / 2 - 1] {
                v.push(z + o);
                v.push(z - o);
            }
        }
        for c in [-6i128, -5, -4, 4, 5, 6, 10, -10, 100, -100] {
            v.push(c * NPC);
            v.push(c * NPC + 1);
            v.push(c * NPC - 1);
        }
    }
    v.sort();
    v.dedup();
    v
}

pub fn points(thorough: bool, deep: bool, leap: &LeapTable) -> Vec<Pt> {
    let mut pts = vec![];
    for t in tai_lattice(thorough, deep) {
        for ts in SCALES {
            match ts {
                TimeScale::ET | TimeScale::TDB => {
                    // expressed through the real conversion; compared only when > 100 ns apart
                    let e = Epoch::from_duration(mk(t), TimeScale::TAI).to_time_scale(ts);
                    pts.push(Pt { ts, c: alpha(e.duration), tai: t, exact: false });
                }
                _ => {
                    if let Some(c) = scales::from_tai(t, ts, leap) {
                        pts.push(Pt { ts, c, tai: t, exact: true });
                    }
                }
            }
        }
    }
    pts
}

fn ep(p: &Pt) -> Epoch {
    Epoch::from_duration(mk(p.c), p.ts)
}

pub fn j_pair(a: &Pt, b: &Pt, out: &mut Local) {
    let args = vec![scale_name(a.ts).to_string(), enc(a.c), scale_name(b.ts).to_string(), enc(b.c)];
    // ET/TDB operands: the statement holds for instants more than 100 ns apart
    if (!a.exact || !b.exact) && (a.tai - b.tai).abs() <= 100 && !(a.ts == b.ts && a.c == b.c) {
        out.dc(0);
        return;
    }
    let want = if a.ts == b.ts && !a.exact { a.c.cmp(&b.c) } else { a.tai.cmp(&b.tai) };
    let (ea, eb) = (ep(a), ep(b));
    let r = guard(|| {
        (
            ea == eb,
            ea != eb,
            ea < eb,
            ea <= eb,
            ea > eb,
            ea >= eb,
            ea.cmp(&eb),
            ea.partial_cmp(&eb),
            // the inherent Epoch::min/max (taking &self); `ea.min(eb)` would resolve to Ord::min
            (Epoch::min(&ea, eb), Ord::min(ea, eb)),
            (Epoch::max(&ea, eb), Ord::max(ea, eb)),
            (ea..eb).contains(&ea),
            eb == ea,
            eb.cmp(&ea),
        )
    });
    let kind = format!("{}/{}", scale_name(a.ts), scale_name(b.ts));
    let rel = {
        let za = scales::zero_tai(a.ts).unwrap_or(if a.exact { 0 } else { J2000_TAI - 32_184_000_000 });
        let zb = scales::zero_tai(b.ts).unwrap_or(if b.exact { 0 } else { J2000_TAI - 32_184_000_000 });
        let inr = |v: i128| (DMIN..=DMAX).contains(&v);
        if a.ts != b.ts && (a.c.abs() > 30_000 * NPC || b.c.abs() > 30_000 * NPC) && !(inr(a.tai) && inr(b.tai) && inr(a.tai - zb) && inr(b.tai - za)) {
            // the comparison converts one operand into the other's scale through TAI: one of those values is not
            // representable, so the conversion saturates (KNOWN_FINDINGS D51)
            "conversion-saturates-at-the-end-of-the-range"
        } else if a.ts == b.ts && a.c == -b.c && a.c != 0 {
            "symmetric-about-scale-zero"
        } else if (a.tai - za).abs() == (b.tai - za).abs() && a.tai != b.tai {
            "symmetric-about-a-zero"
        } else if DIGEST.iter().any(|(ts, d)| (a.tai - (*ts + *d) as i128 * NS).abs() <= 40 * NS) {
            "near-leap-second"
        } else {
            "other"
        }
    };
    match r {
        Ok((eq, ne, lt, le, gt, ge, cmp, pcmp, mn, mx, contains, eq_sw, cmp_sw)) => {
            let weq = want == Ordering::Equal;
            let bad = if eq != weq {
                Some(("eq-wrong", format!("== is {weq}"), format!("{eq}")))
            } else if ne == eq {
                Some(("ne-inconsistent", "!= is !(==)".into(), format!("eq={eq} ne={ne}")))
            } else if cmp != want || pcmp != Some(want) {
                Some(("cmp-wrong", format!("{want:?}"), format!("cmp={cmp:?} partial={pcmp:?}")))
            } else if lt != (want == Ordering::Less) || gt != (want == Ordering::Greater) || le != (want != Ordering::Greater) || ge != (want != Ordering::Less) {
                Some(("relop-wrong", format!("{want:?}"), format!("lt={lt} le={le} gt={gt} ge={ge}")))
            } else if (lt as u8 + eq as u8 + gt as u8) != 1 {
                Some(("not-exactly-one-of-lt-eq-gt", "exactly one".into(), format!("lt={lt} eq={eq} gt={gt}")))
            } else if eq_sw != eq || cmp_sw != want.reverse() {
                Some(("asymmetric-under-swap", format!("eq={weq} cmp={:?}", want.reverse()), format!("eq={eq_sw} cmp={cmp_sw:?}")))
            } else if contains != (want == Ordering::Less) {
                Some(("range-contains-wrong", format!("{}", want == Ordering::Less), format!("{contains}")))
            } else {
                // min/max chronological: the returned epoch denotes the earlier/later instant
                let is = |x: &Epoch, p: &Pt| x.time_scale == p.ts && alpha(x.duration) == p.c;
                let ok_min = |m: &Epoch| if want == Ordering::Less { is(m, a) } else if want == Ordering::Greater { is(m, b) } else { is(m, a) || is(m, b) };
                let ok_max = |m: &Epoch| if want == Ordering::Greater { is(m, a) } else if want == Ordering::Less { is(m, b) } else { is(m, a) || is(m, b) };
                let mn_ok = ok_min(&mn.0) && ok_min(&mn.1);
                let mx_ok = ok_max(&mx.0) && ok_max(&mx.1);
                if !mn_ok || !mx_ok {
                    Some(("minmax-wrong", "earlier/later operand".into(), format!("min={mn:?} max={mx:?}")))
                } else {
                    None
                }
            };
            match bad {
                Some((cls, exp, obs)) if rel.starts_with("conversion-saturates") => out.viol("c12.pair", format!("{cls},{rel}"), args, exp, obs),
                Some((cls, exp, obs)) => out.viol("c12.pair", format!("{cls},{kind},{rel}"), args, exp, obs),
                None => {
                    let nt = a.ts != b.ts || rel != "other" || (a.tai - b.tai).abs() <= 1;
                    out.ok(13, nt, (a.ts as u64) * 9 + b.ts as u64 + 100 * (want as i8 + 1) as u64);
                    if out.want_sample(nt) {
                        out.sample("c12.pair", args, format!("{want:?}"), nt);
                    }
                }
            }
        }
        Err(p) => out.viol("c12.pair", format!("panic:{},{kind}", p.class()), args, "no panic".into(), format!("{} {}", p.loc, p.msg)),
    }
}

/// comparison preserved by converting either operand to another scale X (uniform or UTC)
pub fn j_convert(a: &Pt, b: &Pt, x: TimeScale, leap: &LeapTable, out: &mut Local) {
    let args = vec![scale_name(a.ts).to_string(), enc(a.c), scale_name(b.ts).to_string(), enc(b.c), scale_name(x).to_string()];
    if !a.exact || !b.exact {
        if (a.tai - b.tai).abs() <= 100 {
            out.dc(0);
            return;
        }
    }
    // converting into UTC an instant inside an inserted interval is a value don't-care (C06)
    // (an ET/TDB epoch denotes its lattice instant only to within the C07 tolerance: within 100 ns of an inserted
    // interval it may fall on either side of the edge)
    let undefined_in_utc = |p: &Pt| {
        if p.exact {
            leap.tai_to_utc(p.tai).is_none()
        } else {
            [-100i128, 0, 100].iter().any(|o| leap.tai_to_utc(p.tai + o).is_none())
        }
    };
    if x == TimeScale::UTC && (undefined_in_utc(a) || undefined_in_utc(b)) {
        if !(a.exact && b.exact) {
            out.dc(0); // ET/TDB points: on which side of the edge they fall is not pinned
            return;
        }
        // UTC has no count for an instant inside an inserted interval, so == and strict order cannot be preserved; but
        // the order must not be REVERSED (TAI to UTC never goes backwards, C06): the UTC counts of the two converted
        // epochs must be ordered like the instants, or equal
        let (ea, eb) = (ep(a), ep(b));
        let want = a.tai.cmp(&b.tai);
        match guard(|| (alpha(ea.to_time_scale(x).duration), alpha(eb.to_time_scale(x).duration))) {
            Ok((ua, ub)) => {
                let got = ua.cmp(&ub);
                if got == want || got == Ordering::Equal || want == Ordering::Equal {
                    out.ok(2, true, 5000 + (got == want) as u64);
                } else {
                    out.viol("c12.convert", "order-reversed-by-conversion-into-utc-inside-an-inserted-interval".into(), args, format!("{want:?} or Equal"), format!("{got:?} (UTC counts {ua} / {ub})"));
                }
            }
            Err(p) => out.viol("c12.convert", format!("panic:{}", p.class()), args, "no panic".into(), format!("{} {}", p.loc, p.msg)),
        }
        return;
    }
    let want = a.tai.cmp(&b.tai);
    let (ea, eb) = (ep(a), ep(b));
    let r = guard(|| {
        let (ax, bx) = (ea.to_time_scale(x), eb.to_time_scale(x));
        (ax.cmp(&eb), ea.cmp(&bx), ax.cmp(&bx), ax == eb, ea == bx, ax == bx)
    });
    match r {
        Ok((c1, c2, c3, e1, e2, e3)) => {
            let weq = want == Ordering::Equal;
            if c1 != want || c2 != want || c3 != want || e1 != weq || e2 != weq || e3 != weq {
                out.viol("c12.convert", format!("not-preserved,{}/{}->{}", scale_name(a.ts), scale_name(b.ts), scale_name(x)), args, format!("{want:?} eq={weq}"), format!("cmp: {c1:?} {c2:?} {c3:?} eq: {e1} {e2} {e3}"));
            } else {
                out.ok(6, true, (a.ts as u64) * 81 + (b.ts as u64) * 9 + x as u64);
                if out.want_sample(true) {
                    out.sample("c12.convert", args, format!("{want:?} preserved"), true);
                }
            }
        }
        Err(p) => out.viol("c12.convert", format!("panic:{}", p.class()), args, "no panic".into(), format!("{} {}", p.loc, p.msg)),
    }
}

pub fn j_sort(variant: u64, deep: bool, pts: &[Pt], out: &mut Local) {
    // exact points only, one per distinct instant and scale rotation, so that the sorted order is unique
    let mut seen = std::collections::BTreeSet::new();
    let mut sel: Vec<Pt> = vec![];
    for (i, p) in pts.iter().enumerate() {
        if p.exact && !seen.contains(&p.tai) && (i as u64 + variant) % 3 == 0 {
            seen.insert(p.tai);
            sel.push(*p);
        }
    }
    let n = sel.len();
    let stride = [7usize, 11, 13, 17].into_iter().find(|k| n % k != 0).unwrap_or(1);
    let mut v: Vec<Epoch> = (0..n).map(|i| ep(&sel[(i * stride + variant as usize) % n])).collect();
    let r = guard(|| {
        v.sort();
        v.clone()
    });
    let mut want = sel.clone();
    want.sort_by_key(|p| p.tai);
    let args = vec![variant.to_string(), if deep { "deep" } else { "quick" }.to_string()];
    match r {
        Ok(got) => {
            let ok = got.iter().zip(want.iter()).all(|(g, w)| g.time_scale == w.ts && alpha(g.duration) == w.c);
            if ok {
                out.ok(n as u64, true, variant);
                out.sample("c12.sort", args, format!("{n} epochs in mixed scales sorted chronologically"), true);
            } else {
                out.viol("c12.sort", "order-wrong".into(), args, "chronological".into(), "not chronological".into());
            }
        }
        Err(p) => out.viol("c12.sort", format!("panic:{}", p.class()), args, "no panic".into(), p.msg),
    }
}

pub fn run(rep: &mut Report) {
    let q = false; // one parameter set for both tiers (3 s)
    let leap = LeapTable::load().expect("leap").0;
    let deep = !rep.quick();
    let pts = points(!q, deep, &leap);
    let n = pts.len() as u64;
    rep.bound("tai_instants", tai_lattice(!q, deep).len() as u64);
    rep.bound("epochs", n);
    rep.rule = "TAI instants (each scale's zero +- {0, 1 ns, 1 s, 1 day, half a century, one century}, leap seconds +- {0, 1 ns, 1 s} on both sides) (thorough tier: both sides of every table entry at 11 finer offsets, every half second within 40 s of the 2017 leap second, finer offsets round each zero, more century boundaries) each expressed in all nine scales (UTC by inverting the table, ET/TDB through the real conversion); all ordered pairs under == != < <= > >= cmp partial_cmp min max Range::contains and with operands swapped; conversion invariance on a sub-lattice x 7 target scales; sort of mixed-scale vectors. Oracle: the TAI instants. Pairs with an ET/TDB operand within 100 ns are don't-cares. Non-trivial = different scales, symmetric about a zero, near a leap second or <= 1 ns apart.".into();
    rep.assumptions = vec!["the uniform conversions (C05) and the leap table (C06) define which instant an epoch denotes; ET/TDB epochs are produced by the real conversion and judged only beyond 100 ns".into()];
    sweep(rep, "c12.pair", n * n, |i, out| j_pair(&pts[(i / n) as usize], &pts[(i % n) as usize], out));
    let sub: Vec<Pt> = pts.iter().copied().step_by(if deep { 3 } else { 2 }).collect();
    let m = sub.len() as u64;
    let xs = [TimeScale::TAI, TimeScale::TT, TimeScale::UTC, TimeScale::GPST, TimeScale::GST, TimeScale::BDT, TimeScale::QZSST];
    rep.bound("convert_space", format!("{m} x {m} epochs x 7 target scales"));
    sweep(rep, "c12.convert", m * m * 7, |i, out| {
        let x = xs[(i % 7) as usize];
        let j = i / 7;
        j_convert(&sub[(j / m) as usize], &sub[(j % m) as usize], x, &leap, out)
    });
    sweep(rep, "c12.sort", 3, |i, out| j_sort(i, deep, &pts, out));
    // interior scan (round 8): evenly spread, unremarkable TAI instants within +-100 centuries, held in every pair of the seven
    // scales with an exact reference conversion; the second instant is the same, 1 ns away, or a gap of every magnitude away
    {
        let nsc: u64 = if deep { 10_000_000 } else { 700_000 };
        rep.bound("interior_scan_points", nsc);
        let lp = &leap;
        let mk = move |t: i128, ts: TimeScale| scales::from_tai(t, ts, lp).map(|c| Pt { ts, c, tai: t, exact: true });
        sweep(rep, "c12.scan_pair", 49 * (nsc / 16), |i, out| {
            let k = i / 49;
            let t = crate::lattice::scan_point(k, 0, -100 * NPC, 100 * NPC);
            let gap = match k % 4 { 0 => 0, 1 => if k % 8 == 1 { 1 } else { -1 }, _ => crate::lattice::scan_magnitude(k, 1, 0, 70) };
            if let (Some(a), Some(b)) = (mk(t, xs[(i % 7) as usize]), mk(t + gap, xs[((i / 7) % 7) as usize])) {
                j_pair(&a, &b, out)
            }
        });
        // an ET / TDB operand (produced by the real conversion) against an instant 101 ns .. 1 us away held in another scale:
        // the statement holds "for instants more than 100 ns apart" at every magnitude of the count
        sweep(rep, "c12.scan_etdb", 2 * 7 * 12 * (nsc / 40), |i, out| {
            let k = i / 168;
            let t = match k % 3 { 0 => crate::lattice::scan_point(k, 4, -100 * NPC, 100 * NPC), 1 => J2000_TAI + crate::lattice::scan_magnitude(k, 5, 20, 62), _ => J2000_TAI + crate::lattice::scan_point(k, 0, -1_100_000_000 * NS, 1_100_000_000 * NS) };
            let ts = [TimeScale::ET, TimeScale::TDB][(i % 2) as usize];
            let gap = [101i128, 105, 110, 119, 130, 1000, -101, -105, -110, -119, -130, -1000][((i / 14) % 12) as usize];
            let e = Epoch::from_duration(crate::oracle::dur::mk(t), TimeScale::TAI).to_time_scale(ts);
            let a = Pt { ts, c: alpha(e.duration), tai: t, exact: false };
            if let Some(b) = mk(t + gap, xs[((i / 2) % 7) as usize]) {
                j_pair(&a, &b, out);
                j_pair(&b, &a, out);
            }
        });
        sweep(rep, "c12.scan_convert", 7 * 49 * (nsc / 160), |i, out| {
            let k = i / 343;
            let t = crate::lattice::scan_point(k, 2, -100 * NPC, 100 * NPC);
            let gap = if k % 2 == 0 { crate::lattice::scan_magnitude(k, 3, 0, 70) } else { [0i128, 1, -1][(k % 3) as usize] };
            if let (Some(a), Some(b)) = (mk(t, xs[(i % 7) as usize]), mk(t + gap, xs[((i / 7) % 7) as usize])) {
                j_convert(&a, &b, xs[((i / 49) % 7) as usize], lp, out)
            }
        });
    }

    // order independence: comparisons of the same and of neighbouring instants held in different scales - after the last
    // table entry, between entries, in the pre-1972 era, mirrored about 1900 - in every order
    {
        let inst: [i128; 6] = [3_706_000_000 * NS, 3_692_217_636 * NS + NS / 2, 2_051_222_400 * NS, 2_840_140_800 * NS, 86_400 * NS * 7305 + 5, -(86_400 * NS * 7305 + 5)];
        let sp = [(TimeScale::UTC, TimeScale::TAI), (TimeScale::UTC, TimeScale::GPST), (TimeScale::TAI, TimeScale::TT), (TimeScale::GPST, TimeScale::GST), (TimeScale::BDT, TimeScale::UTC), (TimeScale::QZSST, TimeScale::TAI)];
        let mut menu: Vec<(Pt, Pt)> = vec![];
        for t in inst {
            for (a, b) in sp {
                for d in [0i128, 1] {
                    if let (Some(ca), Some(cb)) = (scales::from_tai(t, a, &leap), scales::from_tai(t + d, b, &leap)) {
                        menu.push((Pt { ts: a, c: ca, tai: t, exact: true }, Pt { ts: b, c: cb, tai: t + d, exact: true }));
                    }
                }
            }
        }
        crate::engine::order_pairs(rep, "c12.order", menu.len() as u64, |i, out| j_pair(&menu[i as usize].0, &menu[i as usize].1, out));
    }
    // far range, same scale: near both ends of the representable range (where conversions to another scale saturate)
    // two epochs of one scale are still ordered by their counts
    let mut far: Vec<i128> = vec![];
    let year = 365 * 86_400 * NS;
    for d in [1i128, NS, 86_400 * NS, 30 * year, 79 * year, 99 * year, 110 * year, 768 * NPC + 5] {
        far.push(DMAX - d);
        far.push(DMIN + d);
    }
    far.extend([25_000 * NPC + 7, -25_000 * NPC - 7]);
    far.sort();
    let nf = far.len() as u64;
    rep.bound("far_points_per_scale", nf);
    // far range, two scales (the uniform ones, whose offsets are constants): the same instant, and instants 1 ns, 1 s
    // and 20 s apart, given in two different scales near both ends of the range
    let us = [TimeScale::TAI, TimeScale::TT, TimeScale::GPST, TimeScale::QZSST, TimeScale::GST, TimeScale::BDT];
    let mut cross: Vec<(Pt, Pt)> = vec![];
    for ta in us {
        for tb in us {
            if ta == tb {
                continue;
            }
            for ca in &far {
                let tai_a = *ca + scales::zero_tai(ta).unwrap();
                for d in [0i128, 1, -1, NS, -20 * NS] {
                    let cb = tai_a + d - scales::zero_tai(tb).unwrap();
                    if (DMIN..=DMAX).contains(&cb) {
                        cross.push((Pt { ts: ta, c: *ca, tai: tai_a, exact: true }, Pt { ts: tb, c: cb, tai: tai_a + d, exact: true }));
                    }
                }
            }
        }
    }
    rep.bound("far_cross_scale_pairs", cross.len() as u64);
    sweep(rep, "c12.far[cross]", cross.len() as u64, |i, out| j_pair(&cross[i as usize].0, &cross[i as usize].1, out));
    sweep(rep, "c12.far", 9 * nf * nf, |i, out| {
        let ts = SCALES[(i / (nf * nf)) as usize];
        let (ca, cb) = (far[((i / nf) % nf) as usize], far[(i % nf) as usize]);
        j_pair(&Pt { ts, c: ca, tai: ca, exact: true }, &Pt { ts, c: cb, tai: cb, exact: true }, out)
    });
}

pub fn replay(check: &str, a: &[String], out: &mut Local) -> bool {
    let leap = LeapTable::load().expect("leap").0;
    let mkpt = |ts: &str, c: &str| -> Pt {
        let ts = scale_from(ts);
        let c = p128(c);
        if c.abs() > 20_000 * NPC {
            // far-range points: uniform scales by their constant offset; the others are only ever paired within one
            // scale (c12.far), where the count itself orders them
            return Pt { ts, c, tai: c + scales::zero_tai(ts).unwrap_or(0), exact: true };
        }
        match scales::to_tai(c, ts, &leap) {
            Some(t) => Pt { ts, c, tai: t, exact: true },
            None => {
                let t = alpha(Epoch::from_duration(mk(c), ts).to_time_scale(TimeScale::TAI).duration);
                Pt { ts, c, tai: t, exact: false }
            }
        }
    };
    match check {
        "c12.pair" => j_pair(&mkpt(&a[0], &a[1]), &mkpt(&a[2], &a[3]), out),
        "c12.convert" => j_convert(&mkpt(&a[0], &a[1]), &mkpt(&a[2], &a[3]), scale_from(&a[4]), &leap, out),
        "c12.sort" => {
            let deep = a.get(1).map(|x| x == "deep").unwrap_or(false);
            j_sort(pu64(&a[0]), deep, &points(true, deep, &leap), out)
        }
        _ => return false,
    }
    true
}
