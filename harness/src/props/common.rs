//! helpers shared by the property modules: classifiers for signatures, argument codecs
use crate::oracle::dur::*;
use crate::report::Panicked;
use hifitime::{Duration, TimeScale, Unit};

pub fn kind(v: i128) -> &'static str {
    if v == DMIN {
        "MIN"
    } else if v == DMAX {
        "MAX"
    } else {
        "val"
    }
}

pub fn diffclass(got: i128, want: i128) -> String {
    // total on all of i128 x i128: model bounds of the float checks can lie near the i128 extremes
    let d = got.saturating_sub(want);
    let ad = d.unsigned_abs();
    if ad <= 3 {
        format!("{d:+}ns")
    } else if d % NPC == 0 && ad / NPC as u128 <= 2 {
        format!("{:+}c", d / NPC)
    } else if ad < NS_S as u128 {
        "sub-second".into()
    } else if ad < NPC as u128 {
        "sub-century".into()
    } else {
        "large".into()
    }
}

pub fn cclass(v: i128) -> &'static str {
    let c = v.div_euclid(NPC);
    if v == DMAX {
        "MAX"
    } else if c == -32768 {
        "c=-32768"
    } else if c <= -2 {
        "c<=-2"
    } else if c == -1 {
        "c=-1"
    } else if c == 0 {
        "c=0"
    } else if c == 32767 {
        "c=32767"
    } else {
        "c>=1"
    }
}

/// signature class of a wrong duration-valued answer
pub fn wrong_dur(got: &Result<Duration, Panicked>, want: i128) -> (String, String) {
    match got {
        Err(p) => (format!("panic:{}", p.class()), format!("panic at {}: {}", p.loc, p.msg)),
        Ok(d) => {
            if !canonical(*d) {
                ("noncanonical".into(), show(*d))
            } else {
                let g = alpha(*d);
                (format!("got={},want={},diff={}", kind(g), kind(want), diffclass(g, want)), format!("{} {}", show(*d), describe(g)))
            }
        }
    }
}

pub fn unit_name(u: Unit) -> &'static str {
    match u {
        Unit::Nanosecond => "ns",
        Unit::Microsecond => "us",
        Unit::Millisecond => "ms",
        Unit::Second => "s",
        Unit::Minute => "min",
        Unit::Hour => "h",
        Unit::Day => "day",
        Unit::Week => "week",
        Unit::Century => "century",
    }
}
pub fn unit_from(s: &str) -> Unit {
    for u in UNITS {
        if unit_name(u) == s {
            return u;
        }
    }
    panic!("bad unit {s}")
}

pub const SCALES: [TimeScale; 9] = [
    TimeScale::TAI,
    TimeScale::TT,
    TimeScale::ET,
    TimeScale::TDB,
    TimeScale::UTC,
    TimeScale::GPST,
    TimeScale::GST,
    TimeScale::BDT,
    TimeScale::QZSST,
];
pub const UNIFORM: [TimeScale; 6] = [TimeScale::TAI, TimeScale::TT, TimeScale::GPST, TimeScale::QZSST, TimeScale::GST, TimeScale::BDT];

pub fn scale_name(t: TimeScale) -> &'static str {
    match t {
        TimeScale::TAI => "TAI",
        TimeScale::TT => "TT",
        TimeScale::ET => "ET",
        TimeScale::TDB => "TDB",
        TimeScale::UTC => "UTC",
        TimeScale::GPST => "GPST",
        TimeScale::GST => "GST",
        TimeScale::BDT => "BDT",
        TimeScale::QZSST => "QZSST",
        _ => "?",
    }
}
pub fn scale_from(s: &str) -> TimeScale {
    for t in SCALES {
        if scale_name(t) == s {
            return t;
        }
    }
    panic!("bad scale {s}")
}

pub fn p128(s: &str) -> i128 {
    s.parse().unwrap_or_else(|_| panic!("bad i128 {s}"))
}
pub fn p64(s: &str) -> i64 {
    s.parse().unwrap_or_else(|_| panic!("bad i64 {s}"))
}
pub fn pu64(s: &str) -> u64 {
    s.parse().unwrap_or_else(|_| panic!("bad u64 {s}"))
}
pub fn pf64(s: &str) -> f64 {
    // floats are encoded as hex bit patterns "0x..." to be exact
    if let Some(h) = s.strip_prefix("0x") {
        f64::from_bits(u64::from_str_radix(h, 16).expect("bad f64 bits"))
    } else {
        s.parse().unwrap_or_else(|_| panic!("bad f64 {s}"))
    }
}
pub fn ef64(x: f64) -> String {
    format!("0x{:016x}", x.to_bits())
}

/// The per-scale float / parts constructors (`from_<scale>_seconds`, `from_<scale>_days`, `from_tai_parts`,
/// `from_utc_duration`): an epoch of that scale whose elapsed time is the float count of the unit converted by C18's rule
/// (nearest double of the product, truncated toward zero, saturating). kind: 0 = seconds, 1 = days.
/// Returns false when the scale has no such constructor.
pub fn j_scale_float_ctor(check: &str, ts: TimeScale, kind: usize, x: f64, out: &mut crate::report::Local) -> bool {
    use crate::oracle::dur::*;
    use hifitime::Epoch;
    let f: Option<fn(f64) -> Epoch> = match (ts, kind) {
        (TimeScale::TAI, 0) => Some(Epoch::from_tai_seconds),
        (TimeScale::TAI, 1) => Some(Epoch::from_tai_days),
        (TimeScale::UTC, 0) => Some(Epoch::from_utc_seconds),
        (TimeScale::UTC, 1) => Some(Epoch::from_utc_days),
        (TimeScale::TT, 0) => Some(Epoch::from_tt_seconds),
        (TimeScale::ET, 0) => Some(Epoch::from_et_seconds),
        (TimeScale::TDB, 0) => Some(Epoch::from_tdb_seconds),
        (TimeScale::GPST, 0) => Some(Epoch::from_gpst_seconds),
        (TimeScale::GPST, 1) => Some(Epoch::from_gpst_days),
        (TimeScale::GST, 0) => Some(Epoch::from_gst_seconds),
        (TimeScale::GST, 1) => Some(Epoch::from_gst_days),
        (TimeScale::BDT, 0) => Some(Epoch::from_bdt_seconds),
        (TimeScale::BDT, 1) => Some(Epoch::from_bdt_days),
        (TimeScale::QZSST, 0) => Some(Epoch::from_qzsst_seconds),
        (TimeScale::QZSST, 1) => Some(Epoch::from_qzsst_days),
        _ => None,
    };
    let Some(f) = f else { return false };
    let unit = if kind == 0 { Unit::Second } else { Unit::Day };
    let args = vec![scale_name(ts).to_string(), kind.to_string(), ef64(x)];
    let want = super::c18::unit_float_model(x, unit).expect("finite input");
    match crate::report::guard(|| f(x)) {
        Ok(e) => {
            if e.time_scale == ts && canonical(e.duration) && alpha(e.duration) == want {
                let nt = x < 0.0 || x.fract() != 0.0 || want == DMAX || want == DMIN;
                out.ok(1, nt, kind as u64 * 8 + (x < 0.0) as u64 + 2 * (x.fract() != 0.0) as u64 + 4 * (want == DMAX || want == DMIN) as u64);
                if out.want_sample(nt) {
                    out.sample(check, args, format!("{} in {}", describe(want), scale_name(ts)), nt);
                }
            } else if e.time_scale != ts {
                out.viol(check, format!("wrong-scale,{}", ["seconds", "days"][kind]), args, scale_name(ts).to_string(), scale_name(e.time_scale).to_string());
            } else {
                out.viol(check, format!("wrong-count,{},diff={}", ["seconds", "days"][kind], diffclass(alpha(e.duration), want)), args, describe(want), show(e.duration));
            }
        }
        Err(p) => out.viol(check, format!("panic:{}", p.class()), args, "no panic".into(), format!("{} {}", p.loc, p.msg)),
    }
    true
}

/// the float lattice for the per-scale constructors: exact integers and dyadic fractions of both signs, decimals whose
/// double lies below / above them, values whose product leaves the 2^53 ns and the i64 ns ranges, and the far range
pub fn ctor_floats() -> Vec<f64> {
    let mut v: Vec<f64> = vec![];
    for m in [0.0f64, 1.0, 2.0, 59.0, 60.0, 86_399.0, 86_400.0, 15_020.0, 36_525.0, 51_544.5, 0.5, 0.25, 1.5, 1234.125, 0.1, 4.1, 0.57, 1e-9, 1e-10, 2.5e-9, 9_007_199.254_740_993, 9_223_372_036.0, 9_223_372_037.0, 4_611_686_019.0, 3_155_760_000.0, 3_155_716_800.0, 630_720_000.5, 1e11, 1e13, 1e14, 1.0e15, 1.034e14, 1.0341e14, 2e14, 1e30, f64::MAX, f64::MIN_POSITIVE, 5e-324] {
        v.push(m);
        v.push(-m);
    }
    v
}

/// k-th duration count of interior-scan stream `j` (lattice::scan_*): alternately uniform over the whole representable
/// range, uniform over +-10 000 years, and uniform per binade (every magnitude from nanoseconds to the range bound)
pub fn scan_dur(k: u64, j: usize) -> i128 {
    use crate::lattice::{scan_magnitude, scan_point};
    use crate::oracle::dur::{DMAX, DMIN, NPC};
    match k % 3 {
        0 => scan_point(k / 3, j, DMIN, DMAX),
        1 => scan_point(k / 3, j, -100 * NPC, 100 * NPC),
        _ => scan_magnitude(k / 3, j, 0, 76).clamp(DMIN, DMAX),
    }
}

/// k-th i64 factor of interior-scan stream `j`: whole range, per binade, and small factors 1..=100 000 of both signs
pub fn scan_i64(k: u64, j: usize) -> i64 {
    use crate::lattice::{scan_magnitude, scan_point};
    match k % 3 {
        0 => scan_point(k / 3, j, i64::MIN as i128, i64::MAX as i128) as i64,
        1 => scan_magnitude(k / 3, j, 0, 63).clamp(i64::MIN as i128, i64::MAX as i128) as i64,
        _ => {
            let m = scan_point(k / 6, j, 1, 100_000) as i64;
            if (k / 3) % 2 == 0 {
                m
            } else {
                -m
            }
        }
    }
}
