//! helpers shared by the property modules: classifiers for signatures, argument codecs
use crate::oracle::dur::*;
use crate::report::Panicked;
use hifitime::{Duration, TimeScale, Unit};

pub fn kind(v: i128) -> &'static str {
    if v == DMIN {
        "MIN"
    } else if v == DMAX {
        "MAX"
    } else {
        "val"
    }
}

pub fn diffclass(got: i128, want: i128) -> String {
    // total on all of i128 x i128: model bounds of the float checks can lie near the i128 extremes
    let d = got.saturating_sub(want);
    let ad = d.unsigned_abs();
    if ad <= 3 {
        format!("{d:+}ns")
    } else if d % NPC == 0 && ad / NPC as u128 <= 2 {
        format!("{:+}c", d / NPC)
    } else if ad < NS_S as u128 {
        "sub-second".into()
    } else if ad < NPC as u128 {
        "sub-century".into()
    } else {
        "large".into()
    }
}

pub fn cclass(v: i128) -> &'static str {
    let c = v.div_euclid(NPC);
    if v == DMAX {
        "MAX"
    } else if c == -32768 {
        "c=-32768"
    } else if c <= -2 {
        "c<=-2"
    } else if c == -1 {
        "c=-1"
    } else if c == 0 {
        "c=0"
    } else if c == 32767 {
        "c=32767"
    } else {
        "c>=1"
    }
}

/// signature class of a wrong duration-valued answer
pub fn wrong_dur(got: &Result<Duration, Panicked>, want: i128) -> (String, String) {
    match got {
        Err(p) => (format!("panic:{}", p.class()), format!("panic at {}: {}", p.loc, p.msg)),
        Ok(d) => {
            if !canonical(*d) {
                ("noncanonical".into(), show(*d))
            } else {
                let g = alpha(*d);
                (format!("got={},want={},diff={}", kind(g), kind(want), diffclass(g, want)), format!("{} {}", show(*d), describe(g)))
            }
        }
    }
}

pub fn unit_name(u: Unit) -> &'static str {
    match u {
        Unit::Nanosecond => "ns",
        Unit::Microsecond => "us",
        Unit::Millisecond => "ms",
        Unit::Second => "s",
        Unit::Minute => "min",
        Unit::Hour => "h",
        Unit::Day => "day",
        Unit::Week => "week",
        Unit::Century => "century",
    }
}
pub fn unit_from(s: &str) -> Unit {
    for u in UNITS {
        if unit_name(u) == s {
            return u;
        }
    }
    panic!("bad unit {s}")
}

pub const SCALES: [TimeScale; 9] = [
    TimeScale::TAI,
    TimeScale::TT,
    TimeScale::ET,
    TimeScale::TDB,
    TimeScale::UTC,
    TimeScale::GPST,
    TimeScale::GST,
    TimeScale::BDT,
    TimeScale::QZSST,
];
pub const UNIFORM: [TimeScale; 6] = [TimeScale::TAI, TimeScale::TT, TimeScale::GPST, TimeScale::QZSST, TimeScale::GST, TimeScale::BDT];

pub fn scale_name(t: TimeScale) -> &'static str {
    match t {
        TimeScale::TAI => "TAI",
        TimeScale::TT => "TT",
        TimeScale::ET => "ET",
        TimeScale::TDB => "TDB",
        TimeScale::UTC => "UTC",
        TimeScale::GPST => "GPST",
        TimeScale::GST => "GST",
        TimeScale::BDT => "BDT",
        TimeScale::QZSST => "QZSST",
        _ => "?",
    }
}
pub fn scale_from(s: &str) -> TimeScale {
    for t in SCALES {
        if scale_name(t) == s {
            return t;
        }
    }
    panic!("bad scale {s}")
}

pub fn p128(s: &str) -> i128 {
    s.parse().unwrap_or_else(|_| panic!("bad i128 {s}"))
}
pub fn p64(s: &str) -> i64 {
    s.parse().unwrap_or_else(|_| panic!("bad i64 {s}"))
}
pub fn pu64(s: &str) -> u64 {
    s.parse().unwrap_or_else(|_| panic!("bad u64 {s}"))
}
pub fn pf64(s: &str) -> f64 {
    // floats are encoded as hex bit patterns "0x..." to be exact
    if let Some(h) = s.strip_prefix("0x") {
        f64::from_bits(u64::from_str_radix(h, 16).expect("bad f64 bits"))
    } else {
        s.parse().unwrap_or_else(|_| panic!("bad f64 {s}"))
    }
}
pub fn ef64(x: f64) -> String {
    format!("0x{:016x}", x.to_bits())
}
