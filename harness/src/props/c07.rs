//! C07 ET and TDB match the NAIF and ESA closed forms and round-trip within nanoseconds.
use super::common::*;
use crate::engine::sweep;
use crate::lattice::{self, J2000_TAI};
use crate::oracle::dur::*;
use crate::oracle::etdb::EtDb;
use crate::oracle::leap::LeapTable;
use crate::oracle::scales;
use crate::report::{guard, Local, Report};
use hifitime::{Epoch, TimeScale};

const TT_NS: i128 = 32_184_000_000;
const FORM_TOL: i128 = 30;
const RT_TOL: i128 = 20;
const JD_J2000_NS: i128 = 2_451_545 * NS_DAY;
const SRC: [TimeScale; 6] = [TimeScale::TAI, TimeScale::TT, TimeScale::GPST, TimeScale::QZSST, TimeScale::GST, TimeScale::BDT];

/// forward direction: source epoch (uniform scale) -> ET and TDB, closed forms, round trips
pub fn j_forward(src: TimeScale, tai: i128, next_tai: Option<i128>, m: &EtDb, out: &mut Local) {
    let c = tai - scales::zero_tai(src).unwrap();
    let args = vec![scale_name(src).to_string(), enc(tai)];
    let e = Epoch::from_duration(mk(c), src);
    let r = guard(|| {
        let et = e.to_time_scale(TimeScale::ET);
        let tdb = e.to_time_scale(TimeScale::TDB);
        let et_back = et.to_time_scale(src);
        let tdb_back = tdb.to_time_scale(src);
        let acc = (alpha(e.to_et_duration()), alpha(e.to_tdb_duration()), e.to_et_seconds(), e.to_tdb_seconds());
        let since = (e.to_et_days_since_j2000(), e.to_et_centuries_since_j2000(), e.to_tdb_days_since_j2000(), e.to_tdb_centuries_since_j2000());
        let jde = (alpha(e.to_jde_et_duration()), alpha(e.to_jde_tdb_duration()));
        let nxt = next_tai.map(|n| {
            let e2 = Epoch::from_duration(mk(n - scales::zero_tai(src).unwrap()), src);
            (alpha(e2.to_time_scale(TimeScale::ET).duration), alpha(e2.to_time_scale(TimeScale::TDB).duration))
        });
        (et, tdb, et_back, tdb_back, acc, nxt, jde, since)
    });
    match r {
        Ok((et, tdb, et_back, tdb_back, acc, nxt, jde, since)) => {
            let (a_et, a_tdb) = (alpha(et.duration), alpha(tdb.duration));
            if et.time_scale != TimeScale::ET || tdb.time_scale != TimeScale::TDB {
                out.viol("c07.forward", "scale-label-wrong".into(), args, "ET / TDB".into(), format!("{} / {}", scale_name(et.time_scale), scale_name(tdb.time_scale)));
                return;
            }
            // closed forms evaluated at the output's own t
            let p_et = (m.et_periodic(a_et as f64 / 1e9) * 1e9).round() as i128;
            let p_tdb = (m.tdb_periodic(a_tdb as f64 / 1e9) * 1e9).round() as i128;
            let err_et = (a_et - (tai - J2000_TAI)) - (TT_NS + p_et);
            let err_tdb = (a_tdb - (tai - J2000_TAI)) - (TT_NS + p_tdb);
            out.metric_max("et_closed_form_max_err_ns", err_et.abs() as f64);
            out.metric_max("tdb_closed_form_max_err_ns", err_tdb.abs() as f64);
            let mag = |e: i128| if e.abs() > 1_000_000 { "gross(>1ms)" } else if e.abs() > 1000 { "us" } else { "ns" };
            if err_et.abs() > FORM_TOL {
                out.viol("c07.forward", format!("ET-closed-form,{},{}", mag(err_et), scale_name(src)), args, format!("ET-TAI = 32.184 s {:+} ns within {FORM_TOL} ns", p_et), format!("error {err_et} ns (ET count {a_et})"));
                return;
            }
            if err_tdb.abs() > FORM_TOL {
                out.viol("c07.forward", format!("TDB-closed-form,{},{}", mag(err_tdb), scale_name(src)), args, format!("TDB-TAI = 32.184 s {:+} ns within {FORM_TOL} ns", p_tdb), format!("error {err_tdb} ns (TDB count {a_tdb})"));
                return;
            }
            let rt_et = alpha(et_back.duration) - c;
            let rt_tdb = alpha(tdb_back.duration) - c;
            out.metric_max("x_et_x_round_trip_max_ns", rt_et.abs() as f64);
            out.metric_max("x_tdb_x_round_trip_max_ns", rt_tdb.abs() as f64);
            if rt_et.abs() > RT_TOL || et_back.time_scale != src {
                out.viol("c07.round_trip", format!("X->ET->X,{},{}", mag(rt_et), scale_name(src)), args, format!("within {RT_TOL} ns"), format!("{rt_et} ns"));
                return;
            }
            if rt_tdb.abs() > RT_TOL || tdb_back.time_scale != src {
                out.viol("c07.round_trip", format!("X->TDB->X,{},{}", mag(rt_tdb), scale_name(src)), args, format!("within {RT_TOL} ns"), format!("{rt_tdb} ns"));
                return;
            }
            let f_ok = crate::oracle::ulp::within_ulps(acc.2, a_et, NS_S, 8, 1.0).0 && crate::oracle::ulp::within_ulps(acc.3, a_tdb, NS_S, 8, 1.0).0;
            let w = crate::oracle::ulp::within_ulps;
            let since_ok = w(since.0, a_et, NS_DAY, 8, 1.0 / 86_400.0).0 && w(since.1, a_et, NPC, 8, 1.0 / 3_155_760_000.0).0 && w(since.2, a_tdb, NS_DAY, 8, 1.0 / 86_400.0).0 && w(since.3, a_tdb, NPC, 8, 1.0 / 3_155_760_000.0).0;
            if !since_ok {
                out.viol("c07.forward", "days-or-centuries-since-j2000-differ-from-the-duration".into(), args, format!("{a_et} ns / {a_tdb} ns in days and centuries"), format!("{since:?}"));
                return;
            }
            if acc.0 != a_et || acc.1 != a_tdb || !f_ok {
                out.viol("c07.forward", "accessor-differs-from-to_time_scale".into(), args, format!("{a_et} / {a_tdb}"), format!("{acc:?}"));
                return;
            }
            // the Julian-date accessors count from JD 0: J2000 noon is JD 2451545.0 in the scale itself
            if jde.0 != a_et + JD_J2000_NS || jde.1 != a_tdb + JD_J2000_NS {
                out.viol("c07.forward", "jde-accessor-differs-from-to_time_scale".into(), args, format!("{} / {}", a_et + JD_J2000_NS, a_tdb + JD_J2000_NS), format!("{jde:?}"));
                return;
            }
            if let (Some(n), Some((n_et, n_tdb))) = (next_tai, nxt) {
                if n - tai > 100 && (n_et <= a_et || n_tdb <= a_tdb) {
                    out.viol("c07.order", format!("not-increasing,{}", scale_name(src)), args, format!("instants {} ns apart keep their order", n - tai), format!("ET {a_et} -> {n_et}, TDB {a_tdb} -> {n_tdb}"));
                    return;
                }
            }
            out.ok(10, true, (src as u64) | (((p_et > 0) as u64) << 4) | (((p_tdb > 0) as u64) << 5) | ((tai < J2000_TAI) as u64) << 6);
            if out.want_sample(true) {
                out.sample("c07.forward", args, format!("ET-TAI-32.184s = {p_et} ns (err {err_et}), TDB: {p_tdb} ns (err {err_tdb}), round trips {rt_et}/{rt_tdb} ns"), true);
            }
        }
        Err(p) => out.viol("c07.forward", format!("panic:{}", p.class()), args, "no panic".into(), format!("{} {}", p.loc, p.msg)),
    }
}

/// reverse direction: a count read as ET / TDB -> uniform scale and back
pub fn j_reverse(which: TimeScale, c: i128, dst: TimeScale, m: &EtDb, out: &mut Local) {
    let args = vec![scale_name(which).to_string(), enc(c), scale_name(dst).to_string()];
    let e = Epoch::from_duration(mk(c), which);
    let r = guard(|| {
        let x = e.to_time_scale(dst);
        let back = x.to_time_scale(which);
        let ctor = if which == TimeScale::ET { Epoch::from_et_duration(mk(c)) } else { Epoch::from_tdb_duration(mk(c)) };
        (x, back, ctor)
    });
    match r {
        Ok((x, back, ctor)) => {
            if ctor.time_scale != which || alpha(ctor.duration) != c {
                out.viol("c07.reverse", "constructor-wrong".into(), args, format!("{} {c}", scale_name(which)), format!("{} {}", scale_name(ctor.time_scale), alpha(ctor.duration)));
                return;
            }
            let tai = alpha(x.duration) + scales::zero_tai(dst).unwrap();
            let per = if which == TimeScale::ET { m.et_periodic(c as f64 / 1e9) } else { m.tdb_periodic(c as f64 / 1e9) };
            let p = (per * 1e9).round() as i128;
            let err = (c - (tai - J2000_TAI)) - (TT_NS + p);
            let rt = alpha(back.duration) - c;
            out.metric_max(&format!("{}_reverse_closed_form_max_err_ns", scale_name(which)), err.abs() as f64);
            out.metric_max(&format!("{}_x_{}_round_trip_max_ns", scale_name(which), scale_name(which)), rt.abs() as f64);
            let mag = |e: i128| if e.abs() > 1_000_000 { "gross(>1ms)" } else if e.abs() > 1000 { "us" } else { "ns" };
            if x.time_scale != dst {
                out.viol("c07.reverse", "scale-label-wrong".into(), args, scale_name(dst).into(), scale_name(x.time_scale).into());
            } else if err.abs() > FORM_TOL {
                out.viol("c07.reverse", format!("{}-closed-form,{},->{}", scale_name(which), mag(err), scale_name(dst)), args, format!("within {FORM_TOL} ns"), format!("error {err} ns"));
            } else if rt.abs() > RT_TOL || back.time_scale != which {
                out.viol("c07.round_trip", format!("{}->X->{},{}", scale_name(which), scale_name(which), mag(rt)), args, format!("within {RT_TOL} ns"), format!("{rt} ns"));
            } else {
                out.ok(3, true, (which as u64) * 9 + dst as u64 + 100 * (p > 0) as u64);
                if out.want_sample(true) {
                    out.sample("c07.reverse", args, format!("err {err} ns, round trip {rt} ns"), true);
                }
            }
        }
        Err(p) => out.viol("c07.reverse", format!("panic:{}", p.class()), args, "no panic".into(), format!("{} {}", p.loc, p.msg)),
    }
}

/// ET <-> TDB directly: a count read as ET (TDB) converted to TDB (ET) must satisfy the other scale's closed form at
/// the TAI instant the implementation itself assigns to the source (judged by c07.reverse within FORM_TOL), hence 2 x FORM_TOL
pub fn j_cross(which: TimeScale, c: i128, m: &EtDb, out: &mut Local) {
    let other = if which == TimeScale::ET { TimeScale::TDB } else { TimeScale::ET };
    let args = vec![scale_name(which).to_string(), enc(c)];
    let e = Epoch::from_duration(mk(c), which);
    let r = guard(|| {
        let x = e.to_time_scale(other);
        let tai = e.to_time_scale(TimeScale::TAI);
        let acc = if other == TimeScale::TDB { (e.to_tdb_duration(), e.to_jde_tdb_duration()) } else { (e.to_et_duration(), e.to_jde_et_duration()) };
        let own = if which == TimeScale::TDB { (e.to_tdb_duration(), e.to_jde_tdb_duration()) } else { (e.to_et_duration(), e.to_jde_et_duration()) };
        (x, tai, acc, own)
    });
    match r {
        Ok((x, tai, acc, own)) => {
            let a = alpha(x.duration);
            let per = if other == TimeScale::ET { m.et_periodic(a as f64 / 1e9) } else { m.tdb_periodic(a as f64 / 1e9) };
            let p = (per * 1e9).round() as i128;
            let err = (a - (alpha(tai.duration) - J2000_TAI)) - (TT_NS + p);
            out.metric_max(&format!("{}_to_{}_closed_form_max_err_ns", scale_name(which), scale_name(other)), err.abs() as f64);
            let mag = |e: i128| if e.abs() > 1_000_000 { "gross(>1ms)" } else if e.abs() > 1000 { "us" } else { "ns" };
            if x.time_scale != other {
                out.viol("c07.cross", "scale-label-wrong".into(), args, scale_name(other).into(), scale_name(x.time_scale).into());
            } else if err.abs() > 2 * FORM_TOL {
                out.viol("c07.cross", format!("{}->{},closed-form,{}", scale_name(which), scale_name(other), mag(err)), args, format!("within {} ns of the {} closed form at the instant's TAI", 2 * FORM_TOL, scale_name(other)), format!("error {err} ns"));
            } else if alpha(acc.0) != a || alpha(acc.1) != a + JD_J2000_NS {
                out.viol("c07.cross", "accessor-differs-from-to_time_scale".into(), args, format!("{a} / {}", a + JD_J2000_NS), format!("{} / {}", alpha(acc.0), alpha(acc.1)));
            } else if alpha(own.0) != c || alpha(own.1) != c + JD_J2000_NS {
                out.viol("c07.cross", "own-scale-accessor-not-identity".into(), args, format!("{c} / {}", c + JD_J2000_NS), format!("{} / {}", alpha(own.0), alpha(own.1)));
            } else {
                out.ok(6, true, (which as u64) | ((p > 0) as u64) << 4 | ((err > 0) as u64) << 5);
                if out.want_sample(true) {
                    out.sample("c07.cross", args, format!("{} count {a}, error {err} ns", scale_name(other)), true);
                }
            }
        }
        Err(p) => out.viol("c07.cross", format!("panic:{}", p.class()), args, "no panic".into(), format!("{} {}", p.loc, p.msg)),
    }
}

pub fn j_zero(which: TimeScale, out: &mut Local) {
    let r = guard(|| (format!("{}", which.reference_epoch()), format!("{}", Epoch::from_duration(mk(0), which)), alpha(which.reference_epoch().duration)));
    let want = format!("2000-01-01T12:00:00 {}", scale_name(which));
    let args = vec![scale_name(which).to_string()];
    match r {
        Ok((a, b, z)) if a == want && b == want && z == 0 => {
            out.ok(2, true, which as u64);
            out.sample("c07.zero", args, want, true);
        }
        Ok((a, b, z)) => out.viol("c07.zero", format!("zero-not-J2000-noon,{}", scale_name(which)), args, want, format!("{a} / {b} / count {z}")),
        Err(p) => out.viol("c07.zero", format!("panic:{}", p.class()), args, "no panic".into(), p.msg),
    }
}

pub fn run(rep: &mut Report) {
    let q = rep.quick();
    let (_leap, consts) = LeapTable::load().expect("leap");
    let m = EtDb::new(consts);
    // phase lattice: J2000 + k*delta, |k*delta| <= 10 000 Julian years, three sub-offsets
    let delta: i128 = if q { (86_400 + 97) * NS_S } else { (6 * 3600 + 97) * NS_S };
    let span: i128 = 10_000 * 36_525 * NS_DAY / 100;
    let kmax = span / delta;
    let n = (2 * kmax + 1) as u64;
    rep.bound("phase_lattice", format!("J2000 + k*{} s, |k| <= {kmax}, sub-offsets {{0, 1 ns, 1/2 s}} : {} instants", delta / NS_S, 3 * n));
    rep.bound("tolerances_ns", format!("closed form {FORM_TOL}, round trip {RT_TOL}, order preserved beyond 100"));
    rep.rule = "phase lattice over +-10 000 Julian years (step coprime with the anomalistic year) x 3 sub-second offsets, plus the epoch lattice EL(TAI) within the span; forward from TAI on every point and from TT/GPST/QZSST/GST/BDT on every 8th; the same counts read as ET and as TDB for the reverse direction into 6 scales (every 8th for non-TAI); consecutive lattice points checked for order preservation; ET<->TDB directly on the same counts (c07.cross), and the to_jde_et/tdb_duration accessors against to_time_scale. Oracle: the two closed forms in f64 with K, EB, M0, M1 parsed from naif0012.txt and the ESA constants of the statement, compared in integer nanoseconds at the output's own t. Every instant is non-trivial (the error depends on the phase of the sine); maximum observed errors are reported.".into();
    rep.assumptions = vec!["platform libm sin() on both sides of the comparison; the oracle's own rounding is below 1 ns at these magnitudes".into(), "constants K, EB, M0, M1 read from /repo/naif0012.txt (cross-checked against the values 1.657e-3, 1.671e-2, 6.239996, 1.99096871e-7 in the oracle self-test)".into()];
    let subs = [0i128, 1, NS_S / 2];
    sweep(rep, "c07.forward[TAI]", 3 * n, |i, out| {
        let k = (i / 3) as i128 - kmax;
        let tai = J2000_TAI + k * delta + subs[(i % 3) as usize];
        // neighbour for the order check: 101 ns later, 1 s later, or next lattice point
        let nxt = match i % 3 {
            0 => tai + 101,
            1 => tai + NS_S,
            _ => tai + delta,
        };
        j_forward(TimeScale::TAI, tai, Some(nxt), &m, out)
    });
    for src in &SRC[1..] {
        sweep(rep, &format!("c07.forward[{}]", scale_name(*src)), 3 * n / 8, |i, out| {
            let i = i * 8 + (*src as u64 % 8);
            let k = (i / 3) as i128 - kmax;
            let tai = J2000_TAI + k * delta + subs[(i % 3) as usize];
            j_forward(*src, tai, None, &m, out)
        });
    }
    let el: Vec<i128> = lattice::el(TimeScale::TAI, if q { 8 } else { 64 }, Some((-2, 40))).into_iter().filter(|t| (t - J2000_TAI).abs() <= span).collect();
    rep.bound("EL_TAI_within_span", el.len() as u64);
    sweep(rep, "c07.forward[EL]", el.len() as u64 * 6, |i, out| j_forward(SRC[(i % 6) as usize], el[(i / 6) as usize], None, &m, out));
    for which in [TimeScale::ET, TimeScale::TDB] {
        sweep(rep, &format!("c07.reverse[{}]", scale_name(which)), 3 * n, |i, out| {
            let k = (i / 3) as i128 - kmax;
            let c = k * delta + subs[(i % 3) as usize];
            let dst = if i % 8 == 0 { SRC[((i / 8) % 6) as usize] } else { TimeScale::TAI };
            j_reverse(which, c, dst, &m, out)
        });
        sweep(rep, &format!("c07.cross[{}]", scale_name(which)), 3 * n, |i, out| {
            let k = (i / 3) as i128 - kmax;
            j_cross(which, k * delta + subs[(i % 3) as usize], &m, out)
        });
        let elr: Vec<i128> = el.iter().map(|t| t - J2000_TAI).collect();
        sweep(rep, &format!("c07.cross[{},EL]", scale_name(which)), elr.len() as u64, |i, out| j_cross(which, elr[i as usize], &m, out));
        sweep(rep, &format!("c07.reverse[{},EL]", scale_name(which)), elr.len() as u64 * 6, |i, out| j_reverse(which, elr[(i / 6) as usize], SRC[(i % 6) as usize], &m, out));
    }
    // phase anchors (round 8): the instants at which the periodic term itself is special - its zero crossings (the offset is
    // exactly 32.184 s: a sign, a "-0", a convergence test against an initial zero), its extrema, and the instants at which it
    // equals a whole number of milliseconds or microseconds (rounding / carry of the offset) - found by bisection on the
    // reference closed forms, each with offsets from half a second to two hours on both sides; every year 1940-2160 and
    // every 250th year of the +-10 000 year span
    {
        let mut years: Vec<i64> = (-60..=160).collect();
        years.extend((-40..=40).map(|k| k * 250));
        if !q {
            years.extend(-10_000..=10_000);
        }
        years.sort();
        years.dedup();
        let year_s = 31_557_600.0f64;
        let mut anchors: Vec<i128> = vec![];
        for y in &years {
            for which in 0..2 {
                let f = |t: f64| if which == 0 { m.et_periodic(t) } else { m.tdb_periodic(t) };
                let targets: [f64; 7] = [0.0, 1.0e-3, -1.0e-3, 1.0e-6, -1.0e-6, 1.5e-3, -1.5e-3];
                let t0 = *y as f64 * year_s;
                for d in 0..366 {
                    let (a, b) = (t0 + d as f64 * 86_400.0, t0 + (d + 1) as f64 * 86_400.0);
                    // level crossings
                    for tg in targets {
                        let (fa, fb) = (f(a) - tg, f(b) - tg);
                        if fa == 0.0 || (fa < 0.0) != (fb < 0.0) {
                            let (mut lo, mut hi) = (a, b);
                            for _ in 0..50 {
                                let mid = 0.5 * (lo + hi);
                                if ((f(mid) - tg) < 0.0) == (fa < 0.0) { lo = mid } else { hi = mid }
                            }
                            anchors.push((lo * 1e9) as i128);
                        }
                    }
                    // extrema: sign change of the slope
                    let g = |t: f64| f(t + 30.0) - f(t - 30.0);
                    if (g(a) < 0.0) != (g(b) < 0.0) {
                        let (mut lo, mut hi) = (a, b);
                        for _ in 0..40 {
                            let mid = 0.5 * (lo + hi);
                            if (g(mid) < 0.0) == (g(a) < 0.0) { lo = mid } else { hi = mid }
                        }
                        anchors.push((lo * 1e9) as i128);
                    }
                }
            }
        }
        anchors.sort();
        anchors.dedup();
        let offs: Vec<i128> = [0i128, 500_000_000, 1_500_000_000, 5 * NS_S, 30 * NS_S, 32_184_000_000, 60 * NS_S, 100 * NS_S, 149 * NS_S, 151 * NS_S, 600 * NS_S, 2_900 * NS_S, 3_100 * NS_S, 7_200 * NS_S].iter().flat_map(|o| [*o, -*o]).collect();
        let (na, no) = (anchors.len() as u64, offs.len() as u64);
        rep.bound("phase_anchors", format!("{na} instants (zero crossings, extrema, whole ms / us levels of both periodic terms over {} years) x {no} offsets", years.len()));
        let span_ok = |c: i128| c.abs() <= span;
        sweep(rep, "c07.forward[phase-anchors]", na * no * 6, |i, out| {
            let c = anchors[(i / (6 * no)) as usize] + offs[((i / 6) % no) as usize];
            if span_ok(c) {
                j_forward(SRC[(i % 6) as usize], J2000_TAI + c - 32_184_000_000, None, &m, out)
            }
        });
        sweep(rep, "c07.reverse[phase-anchors]", na * no * 4, |i, out| {
            let c = anchors[(i / (4 * no)) as usize] + offs[((i / 4) % no) as usize];
            if span_ok(c) {
                j_reverse([TimeScale::ET, TimeScale::TDB][(i % 2) as usize], c, if (i / 2) % 2 == 0 { TimeScale::TAI } else { TimeScale::TT }, &m, out)
            }
        });
        sweep(rep, "c07.cross[phase-anchors]", na * no * 2, |i, out| {
            let c = anchors[(i / (2 * no)) as usize] + offs[((i / 2) % no) as usize];
            if span_ok(c) {
                j_cross([TimeScale::ET, TimeScale::TDB][(i % 2) as usize], c, &m, out)
            }
        });
    }
    sweep(rep, "c07.zero", 2, |i, out| j_zero([TimeScale::ET, TimeScale::TDB][i as usize], out));
    // order independence (depth-2 operation sequences on one thread): forward and reverse conversions at 12 instants
    {
        let inst: Vec<i128> = [-100i128, -1, 0, 1, 7, 25, 60, 100].iter().map(|y| J2000_TAI + y * 31_557_600 * NS_S + 13 * 86_400 * NS_S * (y % 5)).chain([J2000_TAI - 1, J2000_TAI + 32 * NS_S, J2000_TAI + NPC + 10 * NS_S, J2000_TAI - NPC + 20 * NS_S, 7_305 * 86_400 * NS_S + 123_456_789, -(7_305 * 86_400 * NS_S + 123_456_789), J2000_TAI + 7_305 * 86_400 * NS_S + 9, J2000_TAI - 7_305 * 86_400 * NS_S - 9]).collect();
        let ni = inst.len() as u64;
        let mm = &m;
        crate::engine::order_pairs(rep, "c07.order", ni * 4, |i, out| {
            let t = inst[(i % ni) as usize];
            match i / ni {
                0 => j_forward(TimeScale::TAI, t, None, mm, out),
                1 => j_forward(TimeScale::GPST, t, None, mm, out),
                2 => j_reverse(TimeScale::ET, t - J2000_TAI, TimeScale::TAI, mm, out),
                _ => j_reverse(TimeScale::TDB, t - J2000_TAI, TimeScale::TT, mm, out),
            }
        });
    }
    // from_et_seconds / from_tdb_seconds: an ET / TDB epoch with that count of seconds past J2000 (C18's conversion rule)
    let cf = ctor_floats();
    let ncf = cf.len() as u64;
    sweep(rep, "c07.float_ctor", 2 * ncf, |i, out| {
        j_scale_float_ctor("c07.float_ctor", [TimeScale::ET, TimeScale::TDB][(i / ncf) as usize], 0, cf[(i % ncf) as usize], out);
    });
}

pub fn replay(check: &str, a: &[String], out: &mut Local) -> bool {
    let (_leap, consts) = LeapTable::load().expect("leap");
    let m = EtDb::new(consts);
    match check {
        "c07.forward" | "c07.order" => j_forward(scale_from(&a[0]), p128(&a[1]), Some(p128(&a[1]) + 101), &m, out),
        "c07.round_trip" => {
            if a.len() == 2 {
                j_forward(scale_from(&a[0]), p128(&a[1]), None, &m, out)
            } else {
                j_reverse(scale_from(&a[0]), p128(&a[1]), scale_from(&a[2]), &m, out)
            }
        }
        "c07.reverse" => j_reverse(scale_from(&a[0]), p128(&a[1]), scale_from(&a[2]), &m, out),
        "c07.cross" => j_cross(scale_from(&a[0]), p128(&a[1]), &m, out),
        "c07.zero" => j_zero(scale_from(&a[0]), out),
        "c07.float_ctor" => {
            j_scale_float_ctor("c07.float_ctor", scale_from(&a[0]), a[1].parse().unwrap(), pf64(&a[2]), out);
        }
        _ => return false,
    }
    true
}
