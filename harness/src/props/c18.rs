//! C18 Duration float interop: rounded out, truncated to ns in, never panics.
use super::common::*;
use crate::engine::sweep;
use crate::lattice;
use crate::oracle::dur::*;
use crate::oracle::ulp::*;
use crate::report::{guard, Local, Report};
use hifitime::{Duration, TimeUnits, Unit};

const ULPS: u64 = 8;

/// model of `x * unit`: the f64 product (harness's own factor table), truncated toward zero, clamped
pub fn unit_float_model(x: f64, u: Unit) -> Option<i128> {
    if x.is_nan() {
        return None;
    }
    if x == f64::INFINITY {
        return Some(DMAX);
    }
    if x == f64::NEG_INFINITY {
        return Some(DMIN);
    }
    let p = x * (unit_ns(u) as f64);
    if p == f64::INFINITY {
        return Some(DMAX);
    }
    if p == f64::NEG_INFINITY {
        return Some(DMIN);
    }
    Some(clamp(trunc_i128(p)))
}

const FORMS: [&str; 4] = ["f64_mul_unit", "unit_mul_f64", "f64_dot_unit", "from_unit"];
pub fn j_unit_float(form: usize, x: f64, u: Unit, out: &mut Local) {
    let got = guard(|| match form {
        0 => x * u,
        1 => u * x,
        2 => match u {
            Unit::Nanosecond => x.nanoseconds(),
            Unit::Microsecond => x.microseconds(),
            Unit::Millisecond => x.milliseconds(),
            Unit::Second => x.seconds(),
            Unit::Minute => x.minutes(),
            Unit::Hour => x.hours(),
            Unit::Day => x.days(),
            Unit::Week => x.weeks(),
            Unit::Century => x.centuries(),
        },
        _ => match u {
            Unit::Nanosecond => Duration::from_nanoseconds(x),
            Unit::Microsecond => Duration::from_microseconds(x),
            Unit::Millisecond => Duration::from_milliseconds(x),
            Unit::Second => Duration::from_seconds(x),
            Unit::Hour => Duration::from_hours(x),
            Unit::Day => Duration::from_days(x),
            _ => x * u, // no dedicated constructor for minute/week/century
        },
    });
    let check = format!("c18.{}", FORMS[form]);
    let args = vec![ef64(x), unit_name(u).to_string()];
    let want = unit_float_model(x, u);
    match (&got, want) {
        (Err(p), _) => out.viol(&check, format!("panic:{}", p.class()), args, "no panic".into(), format!("{} {} (x={x:e})", p.loc, p.msg)),
        (Ok(d), None) => {
            // NaN: any value, but a canonical one
            if canonical(*d) {
                out.ok(1, true, 31);
            } else {
                out.viol(&check, "nan-noncanonical".into(), args, "canonical".into(), show(*d));
            }
        }
        (Ok(d), Some(w)) => {
            if canonical(*d) && alpha(*d) == w {
                let p = x * (unit_ns(u) as f64);
                let nt = p.abs() >= 9.2e18 || p.fract() != 0.0 || w == DMIN || w == DMAX || x < 0.0 || !x.is_finite();
                let cls = (w == DMIN) as u64 | ((w == DMAX) as u64) << 1 | ((p.abs() >= 9.2e18) as u64) << 2 | ((p.fract() != 0.0) as u64) << 3 | ((x < 0.0) as u64) << 4 | ((w == 0) as u64) << 5;
                out.ok(1, nt, cls);
                if out.want_sample(nt) {
                    out.sample(&check, args, format!("{x:e} {} -> {}", unit_name(u), describe(w)), nt);
                }
            } else {
                let (cls, obs) = wrong_dur(&got, w);
                let mag = if !x.is_finite() { "inf" } else if (x * unit_ns(u) as f64).abs() >= 9.2e18 { "beyond-i64" } else { "within-i64" };
                out.viol(&check, format!("{cls},{mag}"), args, format!("{} (x={x:e})", describe(w)), obs);
            }
        }
    }
}

/// duration -> float readers
pub fn j_read(a: i128, out: &mut Local) {
    let d = mk(a);
    // to_seconds
    let got = guard(|| d.to_seconds());
    let args = vec![enc(a)];
    match got {
        Ok(r) => {
            let (ok, dist) = within_ulps(r, a, NS_S, ULPS, 1.0);
            let sign_ok = (a > 0 && r > 0.0) || (a < 0 && r < 0.0) || (a == 0 && r == 0.0);
            if ok && sign_ok {
                out.ok(1, a < 0 || a.abs() > 1 << 53, (a < 0) as u64 | ((dist > 0.0) as u64) << 1);
                out.metric_max("to_seconds_max_ulps", dist);
            } else {
                out.viol("c18.to_seconds", format!("off,{}", if !sign_ok { "sign" } else if dist > 1e6 { "gross" } else { "ulps" }), args.clone(), format!("{}/1e9 within {ULPS} ulp", a), format!("{r:e} ({dist:.2} ulp)"));
            }
        }
        Err(p) => out.viol("c18.to_seconds", format!("panic:{}", p.class()), args.clone(), "no panic".into(), p.msg),
    }
    for u in UNITS {
        let got = guard(|| d.to_unit(u));
        let args = vec![enc(a), unit_name(u).to_string()];
        match got {
            Ok(r) => {
                // one second's worth in this unit
                let osw = 1e9 / unit_ns(u) as f64;
                let (ok, dist) = within_ulps(r, a, unit_ns(u), ULPS, osw);
                let sign_ok = (a > 0 && r > 0.0) || (a < 0 && r < 0.0) || (a == 0 && r == 0.0);
                if ok && sign_ok {
                    out.ok(1, a < 0 || a.abs() > 1 << 53, (a < 0) as u64 | ((dist > 0.0) as u64) << 1 | 4);
                    out.metric_max("to_unit_max_ulps", dist);
                } else {
                    out.viol("c18.to_unit", format!("off,{},{}", unit_name(u), if !sign_ok { "sign" } else if dist > 1e6 { "gross" } else { "ulps" }), args, format!("{}/{} within {ULPS} ulp", a, unit_ns(u)), format!("{r:e} ({dist:.2} ulp)"));
                }
            }
            Err(p) => out.viol("c18.to_unit", format!("panic:{}", p.class()), args, "no panic".into(), p.msg),
        }
    }
}

/// monotonicity along the sorted lattice
pub fn j_mono(a: i128, b: i128, out: &mut Local) {
    let (da, db) = (mk(a), mk(b));
    let r = guard(|| (da.to_seconds(), db.to_seconds(), da.to_unit(Unit::Day), db.to_unit(Unit::Day), da.to_unit(Unit::Nanosecond), db.to_unit(Unit::Nanosecond)));
    let args = vec![enc(a), enc(b)];
    match r {
        Ok((sa, sb, ya, yb, na, nb)) => {
            if sa > sb || ya > yb || na > nb {
                out.viol("c18.mono", "decreasing".into(), args, "to_seconds/to_unit non-decreasing".into(), format!("{sa:e} > {sb:e} or {ya:e} > {yb:e} or {na:e} > {nb:e}"));
            } else {
                out.ok(6, b - a <= 3, (sa == sb) as u64);
            }
        }
        Err(p) => out.viol("c18.mono", format!("panic:{}", p.class()), args, "no panic".into(), p.msg),
    }
}

pub fn j_in_seconds(u: Unit, out: &mut Local) {
    let r = guard(|| (u.in_seconds(), u.from_seconds()));
    let args = vec![unit_name(u).to_string()];
    match r {
        Ok((a, b)) => {
            let (ok1, _) = within_ulps(a, unit_ns(u), NS_S, 1, 0.0);
            let (ok2, _) = within_ulps(b, NS_S, unit_ns(u), 2, 0.0);
            if ok1 && ok2 {
                out.ok(2, true, 1);
            } else {
                out.viol("c18.in_seconds", format!("wrong,{}", unit_name(u)), args, format!("{}/1e9 and inverse", unit_ns(u)), format!("{a:e} {b:e}"));
            }
        }
        Err(p) => out.viol("c18.in_seconds", format!("panic:{}", p.class()), args, "no panic".into(), p.msg),
    }
}

/// Duration * f64 and f64 * Duration: within 1 ns + 4 ulp(product) of the exact real product, clamped
pub fn j_dur_mul(order: usize, a: i128, x: f64, out: &mut Local) {
    let d = mk(a);
    let check = if order == 0 { "c18.dur_mul_f64" } else { "c18.f64_mul_dur" };
    let args = vec![enc(a), ef64(x)];
    let got = guard(|| if order == 0 { d * x } else { x * d });
    let (wlo, whi, lo, hi) = product_window(a, x);
    let nt = x.fract() != 0.0 || a < 0 || x < 0.0 || lo <= DMIN || hi >= DMAX;
    match &got {
        Ok(r) if canonical(*r) && alpha(*r) >= wlo && alpha(*r) <= whi => {
            out.ok(1, nt, ((alpha(*r) == DMIN) as u64) | ((alpha(*r) == DMAX) as u64) << 1 | ((x.fract() != 0.0) as u64) << 2 | ((a < 0) as u64) << 3 | ((x.abs() < 1.0) as u64) << 4);
            if out.want_sample(nt) {
                out.sample(check, args, format!("{} * {x:e} = {}", describe(a), describe(alpha(*r))), nt);
            }
        }
        Ok(r) if canonical(*r) => {
            let g = alpha(*r);
            // defect model D1: the operator reads the duration through the D1-defective total_nanoseconds()
            if in_d1_domain(d) {
                let (l1, h1, _, _) = product_window(d1_total(d), x);
                if g >= l1 && g <= h1 {
                    out.viol(check, "defect:D1".into(), args, format!("[{wlo}, {whi}]"), format!("{g} (x={x:e})"));
                    return;
                }
            }
            let cls = if x.abs() < f64::EPSILON && g == 0 {
                "factor-below-epsilon-treated-as-zero".to_string()
            } else if x.fract() != 0.0 {
                format!("fractional-factor,got={},diff={}", kind(g), if g.saturating_sub(lo).unsigned_abs() < NS_S as u128 { "sub-second" } else { "large" })
            } else {
                format!("integral-factor,got={},diff={}", kind(g), diffclass(g, lo))
            };
            out.viol(check, cls, args, format!("[{wlo}, {whi}]"), format!("{g} (x={x:e})"));
        }
        Ok(r) => out.viol(check, "noncanonical".into(), args, "canonical".into(), show(*r)),
        Err(p) => out.viol(check, format!("panic:{}", p.class()), args, "no panic".into(), format!("{} {} (x={x:e})", p.loc, p.msg)),
    }
}

/// acceptance window [wlo, whi] for count*x: exact real product +- (1 ns + 4 ulp(product)), clamped; also the
/// floor/ceil of the exact product
fn product_window(a: i128, x: f64) -> (i128, i128, i128, i128) {
    // exact product a * m * 2^e
    let (s, m, e) = decode(x);
    let am = a * m as i128 * s; // |a| < 2^70 (10 000 years), m < 2^53 : fits
    let (lo, hi): (i128, i128) = if m == 0 || a == 0 {
        (0, 0)
    } else if e >= 0 {
        let v = if e >= 127 || am.abs().leading_zeros() as i32 - 1 <= e { if am > 0 { i128::MAX } else { i128::MIN } } else { am << e };
        (v, v)
    } else if -e >= 127 {
        if am > 0 {
            (0, 1)
        } else {
            (-1, 0)
        }
    } else {
        let f = am >> (-e); // floor
        let exact = (f << (-e)) == am;
        (f, if exact { f } else { f + 1 })
    };
    // tolerance: 1 ns + 4 ulp of the product magnitude
    let mag = (lo.unsigned_abs().max(hi.unsigned_abs())) as f64;
    let tol = 1 + (4.0 * ulp_of(mag)).ceil() as i128;
    let wlo = clamp(lo.saturating_sub(tol));
    let whi = clamp(hi.saturating_add(tol));
    (wlo, whi, lo, hi)
}

/// compose_f64 = saturating sum of the seven unit x float terms, negated for sign < 0
pub fn j_compose_f64(sign: i8, f: [f64; 7], out: &mut Local) {
    let units = [Unit::Day, Unit::Hour, Unit::Minute, Unit::Second, Unit::Millisecond, Unit::Microsecond, Unit::Nanosecond];
    let mut t: i128 = 0;
    for i in 0..7 {
        t = clamp(t + unit_float_model(f[i], units[i]).unwrap());
    }
    if sign < 0 {
        t = clamp(-t);
    }
    let got = guard(|| Duration::compose_f64(sign, f[0], f[1], f[2], f[3], f[4], f[5], f[6]));
    let mut args = vec![sign.to_string()];
    args.extend(f.iter().map(|x| ef64(*x)));
    match &got {
        Ok(d) if canonical(*d) && alpha(*d) == t => {
            out.ok(1, true, (sign < 0) as u64 | ((t == 0) as u64) << 1);
            if out.want_sample(true) {
                out.sample("c18.compose_f64", args, format!("{f:?} -> {}", describe(t)), true);
            }
        }
        _ => {
            let (cls, obs) = wrong_dur(&got, t);
            out.viol("c18.compose_f64", cls, args, describe(t), obs);
        }
    }
}

pub fn mul_floats() -> Vec<f64> {
    let mut v: Vec<f64> = vec![0.0, 1.0, 2.0, 3.0, 0.5, 0.25, 1.5, 2.5, 0.1, 0.2, 1.0 / 3.0, 10.598, 0.001, 1e-6, 1e-9, 123456.789, 1e6, 1e9, 1e12, 1e15, 1e18, 1e20];
    for j in 1..=20 {
        v.push(10f64.powi(-j));
        v.push(3.0 * 10f64.powi(-j));
    }
    for i in [1.0f64, 2.0, 10.0, 1000.0, 1e6] {
        v.push(lattice::next_up(i));
        v.push(lattice::next_down(i));
    }
    v.push(1e-300);
    v.push(1e300);
    v.push(f64::MAX);
    v.push(f64::MIN_POSITIVE);
    v.push(5e-324);
    v.push(0.123456789);
    v.push(0.12345678901234568);
    v.push(std::f64::consts::PI);
    let neg: Vec<f64> = v.iter().map(|x| -x).collect();
    v.extend(neg);
    v.sort_by(|a, b| a.total_cmp(b));
    v.dedup_by(|a, b| a.to_bits() == b.to_bits());
    v
}

pub fn run(rep: &mut Report) {
    let deep = !rep.quick();
    let q = false;
    let fl = lattice::fl(!q);
    let dl = lattice::dl(if deep { 131_072 } else { 16_384 }, true);
    rep.bound("FL_size", fl.len() as u64);
    rep.bound("DL_size", dl.len() as u64);
    rep.bound("ulp_tolerance", ULPS);
    rep.rule = "float lattice FL (powers of two with neighbours, decimal fractions, i64/i128/range thresholds divided by each unit factor +-1 ulp, subnormals, f64::MAX, +-inf, NaN) x 9 units x 4 call forms; duration readers on the duration lattice incl. monotonicity along the sorted lattice; Duration*f64 on (|d| <= 10 000 years) x a float sub-lattice in both operand orders; compose_f64 on a small field product and on a far-range product (one huge field next to a second non-zero field). Oracle: exact integer arithmetic on the decoded floats. Non-trivial = fractional or beyond-i64 product, saturation, negative input, non-finite input.".into();
    rep.assumptions = vec!["Duration::from_parts/to_parts exact (C02)".into(), "x86-64 IEEE-754 double arithmetic for the single f64 multiplication the statement itself prescribes".into()];
    let mut fx = fl.clone();
    fx.extend([f64::INFINITY, f64::NEG_INFINITY, f64::NAN]);
    let nf = fx.len() as u64;
    for form in 0..4 {
        let fx = &fx;
        sweep(rep, &format!("c18.{}", FORMS[form]), nf * 9, |i, out| j_unit_float(form, fx[(i / 9) as usize], UNITS[(i % 9) as usize], out));
    }
    sweep(rep, "c18.read", dl.len() as u64, |i, out| j_read(dl[i as usize], out));
    // every whole number of days -120..=120 and whole weeks / days on top of -3..=3 and 100 whole centuries (a unit that
    // does not divide a century - the week - meets every alignment of the century field and the nanosecond field)
    {
        let mut wd: Vec<i128> = (-120i128..=120).map(|d| d * NS_DAY).collect();
        for c in [-3i128, -2, -1, 1, 2, 3, 100] {
            for k in [0i128, 1, 2, 5, 6, 7, 8, 13, 14, 700, 5217 * 7, 5217 * 7 + 6] {
                wd.push(c * NPC + k * NS_DAY);
                wd.push(c * NPC - k * NS_DAY);
            }
        }
        wd.sort();
        wd.dedup();
        rep.bound("whole_day_lattice", wd.len() as u64);
        sweep(rep, "c18.read[whole-days]", wd.len() as u64, |i, out| j_read(wd[i as usize], out));
    }
    // interior scan (round 8): evenly spread, unremarkable durations (reads, monotonicity of near neighbours) and floats
    {
        let nsc: u64 = if deep { 20_000_000 } else { 1_500_000 };
        rep.bound("interior_scan_points", nsc);
        sweep(rep, "c18.scan_read", nsc, |i, out| j_read(scan_dur(i, 0), out));
        sweep(rep, "c18.scan_mono", nsc, |i, out| {
            let a = scan_dur(i, 1);
            let gap = lattice::scan_magnitude(i, 2, 0, 70).abs().max(1);
            if a + gap <= DMAX {
                j_mono(a, a + gap, out)
            }
        });
        sweep(rep, "c18.scan_unit_float", 4 * 9 * (nsc / 4), |i, out| {
            let k = i / 36;
            // mantissa from a Weyl stream, exponent walking through every binade that can matter (2^-40 .. 2^90), both signs
            let m = 1.0 + (lattice::scan_point(k, 3, 0, (1i128 << 52) - 1) as f64) / (1u64 << 52) as f64;
            let e = -40 + ((k / 2) % 131) as i32;
            let x = m * 2f64.powi(e) * if k % 2 == 0 { 1.0 } else { -1.0 };
            j_unit_float((i % 4) as usize, x, UNITS[((i / 4) % 9) as usize], out)
        });
    }
    sweep(rep, "c18.mono", dl.len() as u64 - 1, |i, out| j_mono(dl[i as usize], dl[i as usize + 1], out));
    // interior scan (round 8) of duration x float: unremarkable durations within 10 000 years x factors of four kinds - generic
    // mantissas at every magnitude 2^-70..2^20, near-unity factors 1 +- m x 10^-k (k = 8..15), whole numbers plus a tiny
    // fraction, and many-digit decimals below 0.01
    {
        let nsc: u64 = if deep { 12_000_000 } else { 600_000 };
        rep.bound("interior_scan_products", nsc);
        let y10k: i128 = 10_000 * 36_525 * NS_DAY / 100;
        sweep(rep, "c18.scan_dur_mul", 2 * nsc, |i, out| {
            let k = i / 2;
            let a = if k % 2 == 0 { lattice::scan_point(k, 0, -y10k, y10k) } else { lattice::scan_magnitude(k, 1, 20, 68).clamp(-y10k, y10k) };
            let m = lattice::scan_point(k, 2, 0, (1i128 << 52) - 1) as f64 / (1u64 << 52) as f64; // [0, 1)
            let x = match k % 4 {
                0 => (1.0 + m) * 2f64.powi(-70 + ((k / 4) % 91) as i32),
                1 => 1.0 + (m - 0.5) * 20.0 * 10f64.powi(-8 - ((k / 4) % 8) as i32),
                2 => (1 + (k / 4) % 1000) as f64 + m * 10f64.powi(-9 - ((k / 4) % 6) as i32),
                _ => m / 3.0 * 10f64.powi(-2 - ((k / 4) % 12) as i32),
            } * if (k / 4) % 2 == 0 { 1.0 } else { -1.0 };
            j_dur_mul((i % 2) as usize, a, x, out)
        });
    }
    sweep(rep, "c18.in_seconds", 9, |i, out| j_in_seconds(UNITS[i as usize], out));
    let years10k: i128 = 10_000 * 36_525 * NS_DAY / 100;
    let dm: Vec<i128> = dl.iter().copied().filter(|v| v.abs() <= years10k).collect();
    let mf = mul_floats();
    rep.bound("dur_mul_f64", format!("{} durations x {} floats x 2 orders", dm.len(), mf.len()));
    let nm = mf.len() as u64;
    for order in 0..2 {
        let (dm, mf) = (&dm, &mf);
        crate::engine::sweep_named(
            rep,
            if order == 0 { "c18.dur_mul_f64" } else { "c18.f64_mul_dur" },
            dm.len() as u64 * nm,
            |i, out| j_dur_mul(order, dm[(i / nm) as usize], mf[(i % nm) as usize], out),
            |i| vec![enc(dm[(i / nm) as usize]), ef64(mf[(i % nm) as usize])],
        );
    }
    let cf: [f64; 6] = [0.0, 0.5, 1.5, 1e-3, 123.456, 1e7];
    let n6 = 6u64.pow(7);
    let stride = if q { 37 } else { 1 };
    rep.bound("compose_f64", format!("sign {{i8::MIN,-1,0,1,i8::MAX}} x fields over {cf:?}, every {stride}th tuple of 6^7"));
    sweep(rep, "c18.compose_f64", 5 * n6 / stride, |i, out| {
        let i = i * stride;
        let sign = [i8::MIN, -1, 0, 1, i8::MAX][(i / n6) as usize];
        let mut r = i % n6;
        let mut f = [0f64; 7];
        for slot in f.iter_mut() {
            *slot = cf[(r % 6) as usize];
            r /= 6;
        }
        j_compose_f64(sign, f, out)
    });
    // far range: one huge field (beyond the i64 / i128 / Duration ranges once multiplied by its unit) next to a second
    // non-zero field of the same sign, every pair of positions, every sign class of the i8 argument
    let huge: [f64; 7] = [1e5, 1e10, 9.3e18, 2e25, 1e40, 1e300, f64::MAX];
    let small: [f64; 5] = [0.0, 0.5, 1e7, 1e19, 1e300];
    let nfar = 5 * 7 * 7 * huge.len() as u64 * small.len() as u64;
    rep.bound("compose_f64_far", nfar);
    // order independence: Duration * f64 with repeated and alternating factors, readers, in every order
    {
        let of: [f64; 6] = [0.25, 0.5, 0.1, 1.0 / 3.0, 5e-12, 2.5];
        let oa: [i128; 4] = [1_000 * NS_S, NS_DAY, -NS_S * 7, 3_600 * NS_S];
        crate::engine::order_pairs(rep, "c18.order", 24 + 6, |i, out| if i < 24 { j_dur_mul((i % 2) as usize, oa[((i / 6) % 4) as usize], of[(i % 6) as usize], out) } else { j_read([-6 * NS_DAY, -13 * NS_DAY, 7 * NS_DAY, NPC + 7 * NS_DAY, -NS_S, NPC / 2][(i - 24) as usize], out) });
    }
    sweep(rep, "c18.compose_f64[far]", nfar, |i, out| {
        let mut r = i;
        let sm = small[(r % 5) as usize];
        r /= 5;
        let hg = huge[(r % 7) as usize];
        r /= 7;
        let (pi, pj) = ((r % 7) as usize, ((r / 7) % 7) as usize);
        r /= 49;
        let sign = [i8::MIN, -1, 0, 1, i8::MAX][r as usize];
        let mut f = [0f64; 7];
        f[pj] = sm;
        f[pi] = hg;
        j_compose_f64(sign, f, out)
    });
}

pub fn replay(check: &str, a: &[String], out: &mut Local) -> bool {
    let name = check.strip_prefix("c18.").unwrap_or("");
    if let Some(form) = FORMS.iter().position(|x| *x == name) {
        j_unit_float(form, pf64(&a[0]), unit_from(&a[1]), out);
    } else {
        match name {
            "to_seconds" | "to_unit" | "read" => j_read(p128(&a[0]), out),
            "mono" => j_mono(p128(&a[0]), p128(&a[1]), out),
            "in_seconds" => j_in_seconds(unit_from(&a[0]), out),
            "dur_mul_f64" => j_dur_mul(0, p128(&a[0]), pf64(&a[1]), out),
            "f64_mul_dur" => j_dur_mul(1, p128(&a[0]), pf64(&a[1]), out),
            "compose_f64" => {
                let mut f = [0f64; 7];
                for i in 0..7 {
                    f[i] = pf64(&a[i + 1]);
                }
                j_compose_f64(a[0].parse().unwrap(), f, out)
            }
            _ => return false,
        }
    }
    true
}
