//! C16 Epoch weekday is the civil weekday of its date; weekday arithmetic is mod 7.
use super::c08::{cal_days, rolling_tod, TOD};
use super::common::*;
use crate::engine::{bfs, sweep, SeqSpec};
use crate::oracle::civil::*;
use crate::oracle::dur::*;
use crate::oracle::leap::LeapTable;
use crate::oracle::scales;
use crate::report::{guard, Local, Report};
use hifitime::{Epoch, TimeScale, Unit, Weekday};

const WD: [Weekday; 7] = [Weekday::Monday, Weekday::Tuesday, Weekday::Wednesday, Weekday::Thursday, Weekday::Friday, Weekday::Saturday, Weekday::Sunday];
fn wi(w: Weekday) -> i64 {
    WD.iter().position(|x| *x == w).unwrap() as i64
}

/// the complete weekday algebra: op in 0..8, a in 0..7, n in 0..256
pub fn j_algebra(op: u64, a: u64, n: u64, out: &mut Local) {
    let w = WD[a as usize];
    let args = vec![op.to_string(), a.to_string(), n.to_string()];
    let (name, got, want): (&str, Result<i64, crate::report::Panicked>, i64) = match op {
        0 => ("add_u8", guard(|| wi(w + n as u8)), (a as i64 + n as i64).rem_euclid(7)),
        1 => ("sub_u8", guard(|| wi(w - n as u8)), (a as i64 - n as i64).rem_euclid(7)),
        2 => ("add_assign_u8", guard(|| { let mut x = w; x += n as u8; wi(x) }), (a as i64 + n as i64).rem_euclid(7)),
        3 => ("sub_assign_u8", guard(|| { let mut x = w; x -= n as u8; wi(x) }), (a as i64 - n as i64).rem_euclid(7)),
        4 => ("from_u8", guard(|| wi(Weekday::from(n as u8))), (n as i64).rem_euclid(7)),
        5 => ("from_i8", guard(|| wi(Weekday::from(n as u8 as i8))), (n as u8 as i8 as i64).rem_euclid(7)),
        6 => ("add_weekday", guard(|| wi(w + WD[(n % 7) as usize])), (a as i64 + (n % 7) as i64).rem_euclid(7)),
        7 => ("into_u8", guard(|| u8::from(w) as i64), a as i64),
        _ => {
            // difference: days from w to the next occurrence of the other (0..6)
            let b = (n % 7) as i64;
            ("sub_weekday", guard(|| alpha(w - WD[b as usize]) as i64), ((b - a as i64).rem_euclid(7)) * NS_DAY as i64)
        }
    };
    let check = format!("c16.{name}");
    match got {
        Ok(g) if g == want => {
            out.ok(1, n >= 7, op * 8 + want as u64 % 8);
            if out.want_sample(n >= 7) {
                out.sample(&check, args, format!("{:?} {name} {n} -> {want}", w), n >= 7);
            }
        }
        Ok(g) => out.viol(&check, format!("wrong,{}", if n >= 128 { "n>=128" } else { "n<128" }), args, want.to_string(), g.to_string()),
        Err(p) => out.viol(&check, format!("panic:{},{}", p.class(), if n >= 128 { "n>=128" } else { "n<128" }), args, want.to_string(), format!("{} {}", p.loc, p.msg)),
    }
}

fn todclass(tod: i128) -> &'static str {
    if tod < 1000 {
        "first-us-of-day"
    } else if tod >= NS_DAY - 1000 {
        "last-us-of-day"
    } else {
        "within-day"
    }
}

/// count in `ts` of the instant whose civil date-time in `ts` itself is (days since 1900-01-01, ns of day)
pub fn own_count(days: i64, tod: i128, ts: TimeScale) -> i128 {
    let (zd, zt) = scales::gregorian_zero(ts);
    (days - zd) as i128 * NS_DAY + tod - zt
}

/// TAI count of (ts, c) as an interval [lo, hi]: exact for the uniform scales and UTC; for ET/TDB the real conversion
/// +-100 ns (C07)
pub fn tai_bounds(c: i128, ts: TimeScale, leap: &LeapTable) -> (i128, i128) {
    match scales::to_tai(c, ts, leap) {
        Some(t) => (t, t),
        None => {
            // ET/TDB: the model has no closed-form inverse; the instant is taken from the real conversion, which C07
            // pins to the closed forms within 30 ns - the band left open is +-100 ns instead of the +-2 ms of the
            // periodic term. (Falls back on the wide band if the conversion panics.)
            match guard(|| alpha(Epoch::from_duration(mk(c), ts).to_time_scale(TimeScale::TAI).duration)) {
                Ok(t) => (t - 100, t + 100),
                Err(_) => {
                    let t = c + crate::lattice::J2000_TAI - 32_184_000_000;
                    (t - 2_000_000, t + 2_000_000)
                }
            }
        }
    }
}

/// weekday of the civil date, TAI (default accessor) and UTC
pub fn j_weekday(days: i64, tod: i128, ts: TimeScale, leap: &LeapTable, out: &mut Local) {
    // the epoch is given in `ts` at civil (days, tod) of that scale
    let c = own_count(days, tod, ts);
    let e = Epoch::from_duration(mk(c), ts);
    let args = vec![days.to_string(), enc(tod), scale_name(ts).to_string()];
    let (lo, hi) = tai_bounds(c, ts, leap);
    let (ulo, uhi) = (leap.tai_to_utc(lo), leap.tai_to_utc(hi));
    if lo.div_euclid(NS_DAY) != hi.div_euclid(NS_DAY) || (lo != hi && (ulo.is_none() || uhi.is_none() || ulo.map(|u| u.div_euclid(NS_DAY)) != uhi.map(|u| u.div_euclid(NS_DAY)))) {
        // ET/TDB within 2 ms of a TAI or UTC midnight: the model leaves the periodic term open
        out.dc(0);
        return;
    }
    let (tai, utc) = (lo, ulo);
    let want_tai = tai.div_euclid(NS_DAY).rem_euclid(7) as i64;
    let want_utc = utc.map(|u| u.div_euclid(NS_DAY).rem_euclid(7) as i64);
    assert_eq!(weekday1900(tai.div_euclid(NS_DAY) as i64), want_tai);
    let r = guard(|| (wi(e.weekday()), wi(e.weekday_utc()), wi(e.weekday_in_time_scale(TimeScale::TAI)), wi(e.weekday_in_time_scale(TimeScale::UTC))));
    let cls = format!("{},{}", if days < 0 { "before-1900" } else { "after-1900" }, todclass(tod));
    match r {
        Ok((a, b, a2, b2)) => {
            if a != want_tai || a2 != want_tai {
                out.viol("c16.weekday", format!("tai-weekday-wrong,{cls}"), args, text_wd(want_tai), format!("{} / in_time_scale {}", text_wd(a), text_wd(a2)));
            } else if want_utc.map(|w| b != w || b2 != w).unwrap_or(false) {
                out.viol("c16.weekday", format!("utc-weekday-wrong,{cls}"), args, text_wd(want_utc.unwrap()), format!("{} / in_time_scale {}", text_wd(b), text_wd(b2)));
            } else {
                let nt = tod == 0 || tod >= NS_DAY - 1000 || days < 0;
                out.ok(4, nt, want_tai as u64 | ((days < 0) as u64) << 3 | ((want_utc != Some(want_tai)) as u64) << 4);
                if out.want_sample(nt) {
                    let (y, m, d) = civil1900(days);
                    out.sample("c16.weekday", args, format!("{y:04}-{m:02}-{d:02} +{tod} ns {} is a {}", scale_name(ts), text_wd(want_tai)), nt);
                }
            }
        }
        Err(p) => out.viol("c16.weekday", format!("panic:{},{cls}", p.class()), args, "no panic".into(), format!("{} {}", p.loc, p.msg)),
    }
}
fn text_wd(i: i64) -> String {
    crate::oracle::text::WEEKDAYS[i as usize].to_string()
}

/// next / previous: nearest strictly later / earlier epoch on the weekday at the same time of day
pub fn j_next(dir: usize, days: i64, tod: i128, ts: TimeScale, target: usize, leap: &LeapTable, out: &mut Local) -> Option<i128> {
    let c = own_count(days, tod, ts);
    let e = Epoch::from_duration(mk(c), ts);
    let args = vec![dir.to_string(), days.to_string(), enc(tod), scale_name(ts).to_string(), target.to_string()];
    // where TAI and own-scale civil dates differ the statement does not say in which scale the weekday is read
    let (lo, hi) = tai_bounds(c, ts, leap);
    if lo.div_euclid(NS_DAY) != days as i128 || hi.div_euclid(NS_DAY) != days as i128 {
        out.dc(0);
        return None;
    }
    let cur = days.rem_euclid(7);
    let k = if dir == 0 { (target as i64 - cur).rem_euclid(7) } else { (cur - target as i64).rem_euclid(7) };
    let k = if k == 0 { 7 } else { k };
    let want = if dir == 0 { c + k as i128 * NS_DAY } else { c - k as i128 * NS_DAY };
    let r = guard(|| if dir == 0 { e.next(WD[target]) } else { e.previous(WD[target]) });
    let check = if dir == 0 { "c16.next" } else { "c16.previous" };
    let cls = format!("{},{}", if days < 0 { "before-1900" } else { "after-1900" }, todclass(tod));
    match r {
        Ok(g) if g.time_scale == ts && alpha(g.duration) == want => {
            let nt = k == 7 || tod >= NS_DAY - 1000 || days < 0;
            out.ok(1, nt, k as u64 | (dir as u64) << 3);
            if out.want_sample(nt) {
                out.sample(check, args, format!("{k} days {}", if dir == 0 { "later" } else { "earlier" }), nt);
            }
            Some(want)
        }
        Ok(g) => {
            let dd = alpha(g.duration) - c;
            let what = if dd % NS_DAY != 0 { "not-whole-days".to_string() } else { format!("{}-days-instead-of-{}", dd / NS_DAY, if dir == 0 { k } else { -k }) };
            out.viol(check, format!("{what},{cls}"), args, describe(want), format!("{} {}", scale_name(g.time_scale), describe(alpha(g.duration))));
            None
        }
        Err(p) => {
            out.viol(check, format!("panic:{},{cls}", p.class()), args, "no panic".into(), format!("{} {}", p.loc, p.msg));
            None
        }
    }
}

/// next_weekday_at_midnight / _at_noon, previous_weekday_at_midnight / _at_noon: the statement does not spell these
/// variants out, but their result must still "fall on the requested weekday" (strictly later / earlier, at most a week
/// and a day away) at midnight / noon of the epoch's own time scale. Where the TAI date and the own-scale date of the
/// epoch agree the result is pinned exactly: the own-scale date of next()/previous(), at 00:00:00 / 12:00:00.
pub fn j_at(variant: usize, days: i64, tod: i128, ts: TimeScale, target: usize, leap: &LeapTable, out: &mut Local) {
    let c = own_count(days, tod, ts);
    let args = vec![variant.to_string(), days.to_string(), enc(tod), scale_name(ts).to_string(), target.to_string()];
    let (lo, hi) = tai_bounds(c, ts, leap);
    let window = lo.div_euclid(NS_DAY) != days as i128 || hi.div_euclid(NS_DAY) != days as i128;
    let e = Epoch::from_duration(mk(c), ts);
    let dir = variant / 2;
    let snap = if variant % 2 == 0 { 0 } else { 12 * 3600 * NS_S };
    let cur = days.rem_euclid(7);
    let k = if dir == 0 { (target as i64 - cur).rem_euclid(7) } else { (cur - target as i64).rem_euclid(7) };
    let k = if k == 0 { 7 } else { k };
    let day = if dir == 0 { days + k } else { days - k };
    let want = own_count(day, snap, ts);
    let r = guard(|| match variant {
        0 => e.next_weekday_at_midnight(WD[target]),
        1 => e.next_weekday_at_noon(WD[target]),
        2 => e.previous_weekday_at_midnight(WD[target]),
        _ => e.previous_weekday_at_noon(WD[target]),
    });
    let cls = format!("{},{}", if c < 0 { "before-reference" } else { "after-reference" }, if window { "tai-and-own-date-differ" } else { "same-date" });
    match r {
        Ok(g) if g.time_scale == ts && alpha(g.duration) == want => {
            out.ok(1, true, variant as u64 * 8 + k as u64 + 64 * (c < 0) as u64 + 128 * window as u64);
            if out.want_sample(true) {
                out.sample("c16.at", args, describe(want), true);
            }
        }
        Ok(g) if window && g.time_scale == ts => {
            // the two dates of the epoch differ: any result that is a midnight/noon of the own scale on the requested
            // weekday (read in the own scale or in TAI), on the right side of the epoch and within 8 days, is accepted
            let gc = alpha(g.duration);
            let (zd, zt) = scales::gregorian_zero(ts);
            let civil = gc + zd as i128 * NS_DAY + zt;
            let own_day = civil.div_euclid(NS_DAY);
            let (glo, ghi) = tai_bounds(gc, ts, leap);
            let snapped = civil.rem_euclid(NS_DAY) == snap;
            let on_day = own_day.rem_euclid(7) == target as i128 || (glo.div_euclid(NS_DAY).rem_euclid(7) == target as i128 && ghi.div_euclid(NS_DAY).rem_euclid(7) == target as i128);
            let side = if dir == 0 { gc > c - NS_DAY && gc <= c + 8 * NS_DAY } else { gc < c + NS_DAY && gc >= c - 8 * NS_DAY };
            if snapped && on_day && side {
                out.ok(1, true, 700 + variant as u64);
            } else {
                out.viol("c16.at", format!("wrong,variant{variant},{cls},{}", if !snapped { "not-midnight-or-noon" } else if !on_day { "not-on-the-requested-weekday-in-either-reading" } else { "wrong-side-or-too-far" }), args, describe(want), describe(gc));
            }
        }
        Ok(g) => out.viol("c16.at", format!("wrong,variant{variant},{cls},diff={}", diffclass(alpha(g.duration), want)), args, describe(want), format!("{} {}", scale_name(g.time_scale), describe(alpha(g.duration)))),
        Err(p) => out.viol("c16.at", format!("panic:{}", p.class()), args, "no panic".into(), format!("{} {}", p.loc, p.msg)),
    }
}

// Mode A: chains next/previous from TAI starts
struct Chain {
    inits: Vec<(i64, i128)>,
    depth: usize,
    leap: LeapTable,
}
impl SeqSpec for Chain {
    type S = (i64, i128); // civil day, time of day (TAI)
    fn inits(&self) -> Vec<Self::S> {
        self.inits.clone()
    }
    fn n_actions(&self) -> usize {
        14
    }
    fn action_name(&self, a: usize) -> String {
        format!("{}({:?})", if a < 7 { "next" } else { "previous" }, WD[a % 7])
    }
    fn state_name(&self, s: &Self::S) -> String {
        format!("{s:?}")
    }
    fn max_depth(&self) -> usize {
        self.depth
    }
    fn step(&self, s: &Self::S, a: usize, _p: &[u16], out: &mut Local) -> Option<Self::S> {
        let c = j_next(a / 7, s.0, s.1, TimeScale::TAI, a % 7, &self.leap, out)?;
        Some((c.div_euclid(NS_DAY) as i64, c.rem_euclid(NS_DAY)))
    }
}

pub fn run(rep: &mut Report) {
    let q = rep.quick();
    let leap = LeapTable::load().expect("leap").0;
    rep.rule = "weekday algebra: complete (7 weekdays x 256 integers for +u8 -u8 += -= From<u8> From<i8>, all 49 pairs for + and -); epoch part: calendar lattice (as C08) x day-boundary times of day, given as epochs of every one of the 9 scales (own-scale civil date-time), through weekday / weekday_utc / weekday_in_time_scale; next / previous for all 7 targets on every 7th day plus all leap-second days; the four _at_midnight/_at_noon variants after the reference epoch; stateright BFS over chains of next/previous. Oracle: (days since 1900-01-01) mod 7, 1900-01-01 a Monday. Non-trivial = first/last microsecond of a day, before 1900, k = 7.".into();
    rep.assumptions = vec!["UTC-scale traces whose TAI and UTC civil dates differ (the 10..37 s before UTC midnight) are don't-cares for next/previous: the statement does not say in which scale the weekday is read".into()];
    sweep(rep, "c16.algebra", 9 * 7 * 256, |i, out| j_algebra(i / (7 * 256), (i / 256) % 7, i % 256, out));
    let days = cal_days(q);
    let tods: Vec<i128> = vec![0, 1, 999, 12 * 3600 * NS_S, NS_DAY - 37 * NS_S - 1, NS_DAY - NS_S, NS_DAY - 1000, NS_DAY - 238, NS_DAY - 1];
    let (nd, nt) = (days.len() as u64, tods.len() as u64 + 1);
    rep.bound("calendar_days", nd);
    rep.bound("times_of_day", nt);
    for ts in SCALES {
        // every scale in the thorough tier; quick: TAI and UTC on the full calendar lattice, the others on every 16th day
        let stride: u64 = if q && ts != TimeScale::TAI && ts != TimeScale::UTC { 16 } else { 1 };
        sweep(rep, &format!("c16.weekday[{}]", scale_name(ts)), nd / stride * nt, |i, out| {
            let i = (i / nt) * stride * nt + i % nt;
            let di = (i / nt) as usize;
            let k = (i % nt) as usize;
            let tod = if k < tods.len() { tods[k] } else { rolling_tod(days[di]) };
            j_weekday(days[di], tod, ts, &leap, out)
        });
    }
    // interior scan (round 8): evenly spread, unremarkable (day, nanosecond of day) pairs over years 0001-9999 in every scale,
    // through weekday, next / previous (all 7 targets) and the four _at_ variants
    {
        let nsc: u64 = if q { 250_000 } else { 5_000_000 };
        rep.bound("interior_scan_points", nsc);
        let (d0, d1) = (days[0] as i128 + 8, days[days.len() - 1] as i128 - 8);
        let lp = &leap;
        let pt = move |k: u64| (crate::lattice::scan_point(k, 1, d0, d1) as i64, crate::lattice::scan_point(k, 2, 0, NS_DAY - 1));
        sweep(rep, "c16.scan_weekday", 9 * nsc, |i, out| {
            let (d, t) = pt(i / 9);
            j_weekday(d, t, SCALES[(i % 9) as usize], lp, out)
        });
        sweep(rep, "c16.scan_next", 9 * 14 * (nsc / 8), |i, out| {
            let (d, t) = pt(i / 126 + 1);
            j_next(((i / 7) % 2) as usize, d, t, SCALES[((i / 14) % 9) as usize], (i % 7) as usize, lp, out);
        });
        sweep(rep, "c16.scan_at", 9 * 28 * (nsc / 16), |i, out| {
            let (d, t) = pt(i / 252 + 2);
            j_at(((i / 7) % 4) as usize, d, t, SCALES[((i / 28) % 9) as usize], (i % 7) as usize, lp, out);
        });
    }
    // next / previous
    let mut nd_days: Vec<i64> = days.iter().copied().step_by(7).collect();
    nd_days.extend(leap.leap_days());
    nd_days.extend(leap.leap_days().iter().map(|d| d + 1));
    nd_days.sort();
    nd_days.dedup();
    let ntods = [TOD[0], TOD[1], TOD[4], NS_DAY - 38 * NS_S, TOD[7]];
    let n = nd_days.len() as u64;
    for ts in SCALES {
        sweep(rep, &format!("c16.next+previous[{}]", scale_name(ts)), n * 5 * 14, |i, out| {
            let a = i % 14;
            let j = i / 14;
            j_next((a / 7) as usize, nd_days[(j / 5) as usize], ntods[(j % 5) as usize], ts, (a % 7) as usize, &leap, out);
        });
        // times of day: midnight, exact noon (where the stored duration of a noon-referenced scale is a whole number of
        // days), noon +- 1 ns, the last nanosecond
        sweep(rep, &format!("c16.at[{}]", scale_name(ts)), n * 5 * 28, |i, out| {
            let a = i % 28;
            let j = i / 28;
            j_at((a / 7) as usize, nd_days[(j / 5) as usize], [TOD[0], 43_200 * NS_S, 43_200 * NS_S + 1, 43_200 * NS_S - 1, TOD[7]][(j % 5) as usize], ts, (a % 7) as usize, &leap, out);
        });
    }
    // order independence (depth-2 operation sequences on one thread): next / previous / the at-variants from 12 dates in
    // four scales, in every order
    {
        let od: Vec<i64> = [(1i64, 1i64, 1i64), (1, 3, 1), (4, 2, 29), (1400, 1, 1), (1582, 10, 15), (1899, 12, 31), (1900, 1, 1), (1900, 3, 1), (1972, 6, 30), (2000, 2, 29), (2016, 12, 31), (2017, 1, 1), (2024, 11, 30), (2400, 1, 1), (2400, 12, 31), (9999, 12, 31), (-400, 3, 1), (12_000, 7, 4)].iter().map(|(y, m, d)| days1900(*y, *m, *d)).filter(|d| *d > days1900(1, 1, 8) && *d < days1900(9999, 12, 20)).collect();
        let os = [TimeScale::TAI, TimeScale::UTC, TimeScale::GPST, TimeScale::ET];
        let no = od.len() as u64;
        let lp = &leap;
        let wd: [(i64, i128); 6] = [(days1900(1987, 10, 14), 43_200 * NS_S), (days1900(2087, 10, 14), 86_370 * NS_S), (days1900(2020, 6, 7), 86_364 * NS_S), (days1900(1987, 10, 14), 86_390 * NS_S), (days1900(2016, 12, 31), 86_399 * NS_S), (days1900(1972, 6, 30), 86_395 * NS_S)];
        crate::engine::order_pairs(rep, "c16.order", no * 4 * 3 + 12, |i, out| {
            if i >= no * 4 * 3 {
                let j = (i - no * 4 * 3) as usize;
                return j_weekday(wd[j % 6].0, wd[j % 6].1, [TimeScale::UTC, TimeScale::TAI][j / 6], lp, out);
            }
            let (d, ts, k) = (od[(i % no) as usize], os[((i / no) % 4) as usize], i / (4 * no));
            match k {
                0 => {
                    j_next(0, d, 43_200 * NS_S, ts, (i % 7) as usize, lp, out);
                }
                1 => {
                    j_next(1, d, 1, ts, (i % 7) as usize, lp, out);
                }
                _ => j_at((i % 4) as usize, d, 86_399 * NS_S, ts, (i % 7) as usize, lp, out),
            }
        });
    }
    // order independence over day numbers a power of two (and a century, and multiples of 2^16 days) apart: a memo keyed on a
    // truncated or folded day number aliases such days
    {
        let d0 = days1900(2022, 3, 1);
        let mut dd: Vec<i64> = vec![d0];
        for k in 0..=21 {
            dd.push(d0 + (1i64 << k));
            dd.push(d0 - (1i64 << k));
        }
        for j in 1..=3 {
            dd.push(d0 + j * 65_536);
            dd.push(d0 + j * 36_525);
            dd.push(d0 - j * 65_536);
        }
        let (lo, hi) = (days1900(1, 1, 2), days1900(9999, 12, 30));
        dd.retain(|d| *d >= lo && *d <= hi);
        dd.sort();
        dd.dedup();
        let nd2 = dd.len() as u64;
        let lp = &leap;
        crate::engine::order_pairs(rep, "c16.order[day-aliases]", nd2 * 2, |i, out| j_weekday(dd[(i % nd2) as usize], 43_200 * NS_S, [TimeScale::TAI, TimeScale::UTC][(i / nd2) as usize], lp, out));
    }
    let depth = if q { 3 } else { 4 };
    let mut inits = vec![];
    for (k, d) in [-693_595i64, -36_525, -8, -1, 0, 1, 6, 25_567, 36_524, 42_735, 45_000, 2_958_463].iter().enumerate() {
        inits.push((*d, [0, 1, NS_DAY - 1, 12 * 3600 * NS_S][k % 4]));
        inits.push((*d, NS_DAY - 1));
    }
    rep.bound("chain", format!("{} starts, depth {depth}, 14 actions", inits.len()));
    bfs(rep, "c16.chain", Chain { inits, depth, leap: leap.clone() });
    let _ = Unit::Day;
}

pub fn replay(check: &str, a: &[String], out: &mut Local) -> bool {
    let leap = LeapTable::load().expect("leap").0;
    match check {
        "c16.weekday" => j_weekday(p64(&a[0]), p128(&a[1]), scale_from(&a[2]), &leap, out),
        "c16.next" | "c16.previous" => {
            j_next(a[0].parse().unwrap(), p64(&a[1]), p128(&a[2]), scale_from(&a[3]), a[4].parse().unwrap(), &leap, out);
        }
        "c16.at" => j_at(a[0].parse().unwrap(), p64(&a[1]), p128(&a[2]), scale_from(&a[3]), a[4].parse().unwrap(), &leap, out),
        _ => {
            if check.starts_with("c16.") && a.len() == 3 {
                j_algebra(pu64(&a[0]), pu64(&a[1]), pu64(&a[2]), out)
            } else {
                return false;
            }
        }
    }
    true
}
