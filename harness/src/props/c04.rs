//! C04 Epoch +/- Duration is exact in the epoch's own time scale; differences invert it.
use super::common::*;
use crate::engine::{bfs, sweep, SeqSpec};
use crate::lattice;
use crate::oracle::dur::*;
use crate::oracle::leap::LeapTable;
use crate::oracle::scales;
use crate::report::{guard, Local, Report};
use hifitime::{Epoch, TimeScale, Unit};

const FORMS: [&str; 4] = ["add", "sub", "add_assign", "sub_assign"];

pub fn j_arith(form: usize, ts: TimeScale, c: i128, d: i128, out: &mut Local) -> Option<i128> {
    let t = if form % 2 == 0 { c + d } else { c - d };
    let args = vec![scale_name(ts).to_string(), enc(c), enc(d)];
    let check = format!("c04.{}", FORMS[form]);
    if !(DMIN + 1..DMAX).contains(&t) {
        out.dc(0); // "whenever no bound is hit"
        return None;
    }
    let e = Epoch::from_duration(mk(c), ts);
    let dd = mk(d);
    let r = guard(|| match form {
        0 => e + dd,
        1 => e - dd,
        2 => {
            let mut x = e;
            x += dd;
            x
        }
        _ => {
            let mut x = e;
            x -= dd;
            x
        }
    });
    match r {
        Ok(x) => {
            let g = alpha(x.duration);
            if x.time_scale != ts {
                out.viol(&check, format!("scale-changed,{}", scale_name(ts)), args, scale_name(ts).into(), scale_name(x.time_scale).into());
                None
            } else if g != t || !canonical(x.duration) {
                out.viol(&check, format!("count-wrong,diff={},{}", diffclass(g, t), scale_name(ts)), args, describe(t), describe(g));
                None
            } else {
                let nt = c.div_euclid(NPC) != t.div_euclid(NPC) || (c < 0) != (t < 0);
                out.ok(1, nt, (ts as u64) | (nt as u64) << 4 | ((t < 0) as u64) << 5);
                if out.want_sample(nt) {
                    out.sample(&check, args, format!("{} {} {} {} = {}", scale_name(ts), describe(c), FORMS[form], describe(d), describe(t)), nt);
                }
                Some(t)
            }
        }
        Err(p) => {
            out.viol(&check, format!("panic:{}", p.class()), args, "no panic".into(), format!("{} {}", p.loc, p.msg));
            None
        }
    }
}

const UFORMS: [&str; 4] = ["add_unit", "sub_unit", "add_assign_unit", "sub_assign_unit"];
pub fn j_unit(form: usize, ts: TimeScale, c: i128, u: Unit, out: &mut Local) {
    let t = if form % 2 == 0 { c + unit_ns(u) } else { c - unit_ns(u) };
    let args = vec![scale_name(ts).to_string(), enc(c), unit_name(u).to_string()];
    let check = format!("c04.{}", UFORMS[form]);
    if !(DMIN + 1..DMAX).contains(&t) {
        out.dc(0);
        return;
    }
    let e = Epoch::from_duration(mk(c), ts);
    let r = guard(|| match form {
        0 => e + u,
        1 => e - u,
        2 => {
            let mut x = e;
            x += u;
            x
        }
        _ => {
            let mut x = e;
            x -= u;
            x
        }
    });
    match r {
        Ok(x) if x.time_scale == ts && alpha(x.duration) == t && canonical(x.duration) => {
            let nt = c.div_euclid(NPC) != t.div_euclid(NPC) || (c < 0) != (t < 0);
            out.ok(1, nt, (ts as u64) | (nt as u64) << 4);
            if out.want_sample(nt) {
                out.sample(&check, args, format!("-> {}", describe(t)), nt);
            }
        }
        Ok(x) => out.viol(&check, format!("wrong,diff={},{}", diffclass(alpha(x.duration), t), unit_name(u)), args, format!("{} {}", scale_name(ts), describe(t)), format!("{} {}", scale_name(x.time_scale), describe(alpha(x.duration)))),
        Err(p) => out.viol(&check, format!("panic:{}", p.class()), args, "no panic".into(), format!("{} {}", p.loc, p.msg)),
    }
}

/// Epoch + f64 seconds, for float values that are exact integers
pub fn j_f64(ts: TimeScale, c: i128, secs: i64, out: &mut Local) {
    let t = c + secs as i128 * NS_S;
    let args = vec![scale_name(ts).to_string(), enc(c), secs.to_string()];
    if !(DMIN + 1..DMAX).contains(&t) {
        out.dc(0);
        return;
    }
    let e = Epoch::from_duration(mk(c), ts);
    let x = secs as f64;
    assert!(x as i64 == secs && x.fract() == 0.0, "harness: the float is not that exact integer");
    let r = guard(|| e + x);
    match r {
        Ok(g) if g.time_scale == ts && alpha(g.duration) == t => {
            out.ok(1, secs < 0 || c < 0, ts as u64);
            if out.want_sample(true) {
                out.sample("c04.add_f64", args, format!("-> {}", describe(t)), true);
            }
        }
        Ok(g) => {
            let inexact_product = (x * 1e9) as i128 != secs as i128 * NS_S;
            out.viol("c04.add_f64", format!("wrong,diff={}{}", diffclass(alpha(g.duration), t), if inexact_product { ",integer-whose-product-with-1e9-is-inexact-in-f64" } else { "" }), args, describe(t), format!("{} {}", scale_name(g.time_scale), describe(alpha(g.duration))))
        }
        Err(p) => out.viol("c04.add_f64", format!("panic:{}", p.class()), args, "no panic".into(), format!("{} {}", p.loc, p.msg)),
    }
}

/// (e + d) - e == d, (e + d) - d == e, e + (f - e) == f for same-scale epochs (f = e + d)
pub fn j_ident(ts: TimeScale, c: i128, d: i128, out: &mut Local) {
    let t = c + d;
    let args = vec![scale_name(ts).to_string(), enc(c), enc(d)];
    if !(DMIN + 1..DMAX).contains(&t) || !(DMIN + 1..DMAX).contains(&(c - d)) {
        out.dc(0);
        return;
    }
    let e = Epoch::from_duration(mk(c), ts);
    let dd = mk(d);
    let r = guard(|| {
        let f = e + dd;
        (alpha((e + dd) - e), (e + dd) - dd, e + (f - e), alpha(e - f))
    });
    match r {
        Ok((a, b, cc, neg)) => {
            if a != d {
                out.viol("c04.ident", format!("(e+d)-e!=d,diff={}", diffclass(a, d)), args, describe(d), describe(a));
            } else if alpha(b.duration) != c || b.time_scale != ts {
                out.viol("c04.ident", format!("(e+d)-d!=e,diff={}", diffclass(alpha(b.duration), c)), args, describe(c), describe(alpha(b.duration)));
            } else if alpha(cc.duration) != t || cc.time_scale != ts {
                out.viol("c04.ident", format!("e+(f-e)!=f,diff={}", diffclass(alpha(cc.duration), t)), args, describe(t), describe(alpha(cc.duration)));
            } else if neg != -d {
                out.viol("c04.ident", format!("e-f!=-(f-e),diff={}", diffclass(neg, -d)), args, describe(-d), describe(neg));
            } else {
                let nt = c.div_euclid(NPC) != t.div_euclid(NPC) || (c < 0) != (t < 0) || c < 0;
                out.ok(6, nt, ts as u64 | (nt as u64) << 4);
                if out.want_sample(nt) {
                    out.sample("c04.ident", args, "three identities hold".into(), nt);
                }
            }
        }
        Err(p) => out.viol("c04.ident", format!("panic:{}", p.class()), args, "no panic".into(), format!("{} {}", p.loc, p.msg)),
    }
}

/// e - f across scales: measured in the left operand's scale after re-expressing the right operand in it
pub fn j_cross(lt: TimeScale, lc: i128, rt: TimeScale, rc: i128, leap: &LeapTable, out: &mut Local) {
    let e = Epoch::from_duration(mk(lc), lt);
    let f = Epoch::from_duration(mk(rc), rt);
    let args = vec![scale_name(lt).to_string(), enc(lc), scale_name(rt).to_string(), enc(rc)];
    let r = guard(|| (alpha(e - f), alpha(f.to_time_scale(lt).duration)));
    match r {
        Ok((diff, f_in_l)) => {
            // relational reading of the statement, valid for all 81 pairs
            if diff != lc - f_in_l {
                out.viol("c04.cross", format!("not-left-scale-difference,{}-{},diff={}", scale_name(lt), scale_name(rt), diffclass(diff, lc - f_in_l)), args, describe(lc - f_in_l), describe(diff));
                return;
            }
            // exact model for the uniform scales and UTC
            let m = scales::to_tai(rc, rt, leap).and_then(|t| scales::from_tai(t, lt, leap));
            match m {
                Some(fl) if diff != lc - fl => {
                    out.viol("c04.cross", format!("model-differs,{}-{},diff={}", scale_name(lt), scale_name(rt), diffclass(diff, lc - fl)), args, describe(lc - fl), describe(diff));
                }
                Some(_) => {
                    out.ok(2, lt != rt, (lt as u64) * 9 + rt as u64);
                    if out.want_sample(lt != rt) {
                        out.sample("c04.cross", args, format!("difference {}", describe(diff)), lt != rt);
                    }
                }
                None => out.ok(2, true, 81 + (lt as u64) * 9 + rt as u64), // ET/TDB operand, or inside an inserted UTC interval: relational part only
            }
        }
        Err(p) => out.viol("c04.cross", format!("panic:{}", p.class()), args, "no panic".into(), format!("{} {}", p.loc, p.msg)),
    }
}

// Mode A
struct Seq {
    ts: TimeScale,
    ds: Vec<i128>,
    inits: Vec<i128>,
    depth: usize,
}
impl SeqSpec for Seq {
    type S = (i16, u64);
    fn inits(&self) -> Vec<Self::S> {
        self.inits.iter().map(|v| mk(*v).to_parts()).collect()
    }
    fn n_actions(&self) -> usize {
        self.ds.len() * 2
    }
    fn action_name(&self, a: usize) -> String {
        format!("{}{}", if a % 2 == 0 { "+" } else { "-" }, self.ds[a / 2])
    }
    fn state_name(&self, s: &Self::S) -> String {
        format!("{s:?}")
    }
    fn max_depth(&self) -> usize {
        self.depth
    }
    fn step(&self, s: &Self::S, a: usize, _p: &[u16], out: &mut Local) -> Option<Self::S> {
        let cur = s.0 as i128 * NPC + s.1 as i128;
        let t = j_arith(a % 2, self.ts, cur, self.ds[a / 2], out)?;
        Some(mk(t).to_parts())
    }
}

pub fn durations(w: i128) -> Vec<i128> {
    let years20k = 200 * NPC;
    lattice::dl(w, true).into_iter().filter(|v| v.abs() <= years20k).collect()
}

pub fn run(rep: &mut Report) {
    let q = false; // one parameter set for both tiers (3 s)
    let leap = LeapTable::load().expect("leap").0;
    rep.rule = "epoch lattice EL(scale) x duration lattice (|d| <= 20 000 years) for all nine scales under + - += -=; EL x 9 units for the Unit forms; exact-integer float seconds; the three identities on the same product; all 81 scale pairs for Epoch - Epoch on a sub-lattice incl. every leap-second entry; stateright BFS over +-d sequences from each scale's zero. Oracle: count arithmetic on i128; traces that hit a bound are don't-cares. Non-trivial = crosses a century boundary or the scale's zero.".into();
    rep.assumptions = vec!["cross-scale differences are judged relationally against the real to_time_scale (owned by C05-C07) for all pairs and additionally against the exact model for the uniform scales and UTC".into()];
    // thorough: dense windows of +-256 ns (durations) and +-192 ns (epochs) round every anchor of both lattices instead of +-8, cross-scale pairs at
    // index offsets -8..8, operation sequences one step deeper
    let deep = !rep.quick();
    let (wd, we): (i128, i128) = if deep { (256, 192) } else { (8, 8) };
    let ds = durations(wd);
    rep.bound("durations", ds.len() as u64);
    let nd = ds.len() as u64;
    for ts in SCALES {
        let el = lattice::el(ts, we, None);
        let ne = el.len() as u64;
        for form in 0..4 {
            sweep(rep, &format!("c04.{}[{}]", FORMS[form], scale_name(ts)), ne * nd, |i, out| {
                j_arith(form, ts, el[(i / nd) as usize], ds[(i % nd) as usize], out);
            });
        }
        sweep(rep, &format!("c04.ident[{}]", scale_name(ts)), ne * nd, |i, out| j_ident(ts, el[(i / nd) as usize], ds[(i % nd) as usize], out));
        sweep(rep, &format!("c04.unit[{}]", scale_name(ts)), ne * 36, |i, out| j_unit((i % 4) as usize, ts, el[(i / 36) as usize], UNITS[((i / 4) % 9) as usize], out));
        // integer seconds of every magnitude whose f64 is that exact integer (the statement's "float seconds that are an
        // exact integer"): also those whose product with 1e9 is NOT exact in f64 (from 4 611 686 019 s, ~146 years),
        // and beyond the i64 nanosecond range (~292 years) where Unit * f64 takes its slow path
        let mut secs: Vec<i64> = vec![0, 1, -1, 59, -60, 86_400, -86_400, 3_155_760_000, -3_155_760_000, 4_000_000_000, -4_000_000_000, 1 << 31, 37];
        for m in [1i64 << 33, 1 << 34, 1 << 36, 1 << 40, 10_000_000_000, 100_000_000_000, 10_000_000_000_000, 9_223_372_036, 9_223_372_037, (1 << 34) + (1 << 10), 3 * (1 << 38), 4_611_686_018, 4_611_686_019, (1 << 33) + 1, 10_000_000_001, 100_000_000_000_001, 31_557_600_000_007] {
            for sg in [1i64, -1] {
                let v = sg * m;
                if (v as f64) as i64 == v {
                    secs.push(v);
                }
            }
        }
        let nsx = secs.len() as u64;
        sweep(rep, &format!("c04.add_f64[{}]", scale_name(ts)), ne * nsx, |i, out| j_f64(ts, el[(i / nsx) as usize], secs[(i % nsx) as usize], out));
    }
    // cross-scale differences: sub-lattice per scale (window round every entry, both signs), all 81 pairs
    let subs: Vec<Vec<i128>> = SCALES.iter().map(|ts| lattice::el(*ts, 1, None).into_iter().step_by(if q { 3 } else { 1 }).collect()).collect();
    for (li, lt) in SCALES.iter().enumerate() {
        for (ri, rt) in SCALES.iter().enumerate() {
            let (l, r) = (&subs[li], &subs[ri]);
            // pair every left instant with the right instants at the same index offsets -2..2 (nearby instants) and a fixed far one
            let n = l.len() as u64;
            let m = r.len() as u64;
            let span: u64 = if deep { 18 } else { 6 };
            sweep(rep, &format!("c04.cross[{}-{}]", scale_name(*lt), scale_name(*rt)), n * span, |i, out| {
                let a = (i / span) as usize;
                let off = (i % span) as i64 - (span as i64 - 2) / 2;
                let b = if off == span as i64 / 2 { (a * 7 + 3) % m as usize } else { ((a as i64 * m as i64 / n as i64) + off).clamp(0, m as i64 - 1) as usize };
                j_cross(*lt, l[a], *rt, r[b], &leap, out)
            });
        }
    }
    // interior scan (round 8): evenly spread, unremarkable epoch counts (+-100 centuries in the scale itself) x durations
    // (uniform and per binade) x 9 scales; integer float seconds of every magnitude; cross-scale differences for all 81 pairs
    {
        let nsc: u64 = if deep { 20_000_000 } else { 1_200_000 };
        rep.bound("interior_scan_points", nsc);
        let cnt = |k: u64, j: usize| lattice::scan_point(k, j, -100 * NPC, 100 * NPC);
        let dur = |k: u64| if k % 2 == 0 { lattice::scan_point(k, 1, -100 * NPC, 100 * NPC) } else { lattice::scan_magnitude(k, 2, 0, 70) };
        sweep(rep, "c04.scan_arith", 36 * (nsc / 8), |i, out| {
            let k = i / 36;
            j_arith(((i / 9) % 4) as usize, SCALES[(i % 9) as usize], cnt(k, 0), dur(k), out);
        });
        sweep(rep, "c04.scan_ident", 9 * (nsc / 4), |i, out| j_ident(SCALES[(i % 9) as usize], cnt(i / 9, 3), dur(i / 9 + 1), out));
        sweep(rep, "c04.scan_unit", 36 * (nsc / 16), |i, out| j_unit(((i / 9) % 4) as usize, SCALES[(i % 9) as usize], cnt(i / 36, 4), UNITS[((i / 36) % 9) as usize], out));
        sweep(rep, "c04.scan_add_f64", 9 * (nsc / 4), |i, out| j_f64(SCALES[(i % 9) as usize], cnt(i / 9, 5), lattice::scan_magnitude(i / 9, 0, 0, 44) as i64, out));
        let lp = &leap;
        sweep(rep, "c04.scan_cross", 81 * (nsc / 40), |i, out| {
            let k = i / 81;
            let lc = cnt(k, 1);
            let rc = if k % 2 == 0 { cnt(k, 2) } else { (lc + lattice::scan_magnitude(k, 3, 0, 62)).clamp(-100 * NPC, 100 * NPC) };
            j_cross(SCALES[(i % 9) as usize], lc, SCALES[((i / 9) % 9) as usize], rc, lp, out)
        });
    }
    // order independence: differences of epochs for all 81 scale pairs at two instants, in every order
    {
        let oi: [i128; 2] = [3_692_217_700 * NS_S, 2_000_000_000 * NS_S + 5];
        let lp = &leap;
        crate::engine::order_pairs(rep, "c04.order", 81 * 2, |i, out| {
            let (lt, rt) = (SCALES[((i / 2) / 9) as usize], SCALES[((i / 2) % 9) as usize]);
            let t = oi[(i % 2) as usize];
            let lc = crate::oracle::scales::from_tai(t, lt, lp).unwrap_or(t);
            let rc = crate::oracle::scales::from_tai(t - 86_400 * NS_S - 7, rt, lp).unwrap_or(t);
            j_cross(lt, lc, rt, rc, lp, out)
        });
    }
    let depth = if deep { 5 } else { 4 };
    rep.bound("seq_depth", depth as u64);
    for ts in SCALES {
        let spec = Seq { ts, ds: vec![1, NS_S, NS_DAY, NPC - 1, NPC, NPC + 1, 37 * NS_S, 7 * NS_DAY + 1], inits: vec![0, -1, 3_692_217_600 * NS_S, -NPC], depth };
        bfs(rep, &format!("c04.seq[{}]", scale_name(ts)), spec);
    }
}

pub fn replay(check: &str, a: &[String], out: &mut Local) -> bool {
    let name = check.strip_prefix("c04.").unwrap_or("");
    if let Some(f) = FORMS.iter().position(|x| *x == name) {
        j_arith(f, scale_from(&a[0]), p128(&a[1]), p128(&a[2]), out);
    } else if let Some(f) = UFORMS.iter().position(|x| *x == name) {
        j_unit(f, scale_from(&a[0]), p128(&a[1]), unit_from(&a[2]), out);
    } else if name == "add_f64" {
        j_f64(scale_from(&a[0]), p128(&a[1]), p64(&a[2]), out);
    } else if name == "ident" {
        j_ident(scale_from(&a[0]), p128(&a[1]), p128(&a[2]), out);
    } else if name == "cross" {
        let leap = LeapTable::load().expect("leap").0;
        j_cross(scale_from(&a[0]), p128(&a[1]), scale_from(&a[2]), p128(&a[3]), &leap, out);
    } else {
        return false;
    }
    true
}
