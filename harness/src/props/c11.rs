//! C11 Duration decomposition and text form are exact and parse back identically.
use super::c18::unit_float_model;
use super::common::*;
use crate::engine::sweep;
use crate::lattice;
use crate::oracle::dur::*;
use crate::oracle::text::render_duration;
use crate::report::{guard, Local, Report};
use hifitime::{Duration, Epoch, TimeScale, Unit};
use std::str::FromStr;

fn near_unit(v: i128) -> bool {
    let a = v.abs();
    [NS_DAY, 3600 * NS_S, 60 * NS_S, NS_S, 1_000_000, 1000].iter().any(|u| {
        let r = a % u;
        r <= 3 || u - r <= 3
    })
}

pub fn j_text(v: i128, out: &mut Local) {
    let d = mk(v);
    let args = vec![enc(v)];
    let want = decompose(v);
    let r = guard(|| {
        let dec = d.decompose();
        let subs: Vec<Option<i128>> = UNITS.iter().map(|u| d.subdivision(*u).map(alpha)).collect();
        let shown = format!("{d}");
        let parsed = Duration::from_str(&shown).map(|p| p.to_parts());
        let json = serde_json::to_string(&d).map_err(|e| e.to_string());
        let back: Result<(i16, u64), String> = json.clone().and_then(|j| serde_json::from_str::<Duration>(&j).map(|p| p.to_parts()).map_err(|e| e.to_string()));
        // the other standard ways of driving the same Deserialize impl: an owned Value, a reader (no borrowed input),
        // and JSON text with an escape sequence (the first character escaped, and the mu of microseconds)
        let others: Vec<Result<(i16, u64), String>> = match &json {
            Ok(j) => {
                let esc = {
                    let inner = &j[1..j.len() - 1];
                    let mut it = inner.chars();
                    let first = it.next().unwrap();
                    format!("\"\\u{:04x}{}\"", first as u32, it.as_str().replace('μ', "\\u03bc"))
                };
                vec![
                    serde_json::to_value(d).and_then(serde_json::from_value::<Duration>).map(|p| p.to_parts()).map_err(|e| format!("to_value/from_value: {e}")),
                    serde_json::from_reader::<_, Duration>(j.as_bytes()).map(|p| p.to_parts()).map_err(|e| format!("from_reader: {e}")),
                    serde_json::from_str::<Duration>(&esc).map(|p| p.to_parts()).map_err(|e| format!("from_str({esc}): {e}")),
                ]
            }
            Err(_) => vec![],
        };
        let e = Epoch::from_duration(d, TimeScale::TAI);
        let eh = (e.hours(), e.minutes(), e.seconds(), e.milliseconds(), e.microseconds(), e.nanoseconds());
        (dec, subs, shown, parsed, json, back, eh, others)
    });
    let cls = format!("{},{}", if v < 0 { "negative" } else { "non-negative" }, if near_unit(v) { "near-unit-multiple" } else { "generic" });
    match r {
        Ok((dec, subs, shown, parsed, json, back, eh, others)) => {
            let sign_ok = if v < 0 { dec.0 == -1 } else { dec.0 >= 0 };
            let fields_ok = (dec.1, dec.2, dec.3, dec.4, dec.5, dec.6, dec.7) == (want.1, want.2, want.3, want.4, want.5, want.6, want.7);
            let wsub: Vec<Option<i128>> = vec![
                Some(want.7 as i128),
                Some(want.6 as i128 * 1000),
                Some(want.5 as i128 * 1_000_000),
                Some(want.4 as i128 * NS_S),
                Some(want.3 as i128 * 60 * NS_S),
                Some(want.2 as i128 * 3600 * NS_S),
                Some(clamp(want.1 as i128 * NS_DAY)),
                None,
                None,
            ];
            let wtext = render_duration(v);
            if !sign_ok {
                out.viol("c11.decompose", format!("sign-wrong,{cls}"), args, format!("{}", if v < 0 { "-1" } else { ">= 0" }), format!("{}", dec.0));
            } else if !fields_ok {
                out.viol("c11.decompose", format!("fields-wrong,{cls}"), args, format!("{want:?}"), format!("{dec:?}"));
            } else if subs != wsub {
                out.viol("c11.subdivision", format!("wrong,{cls}"), args, format!("{wsub:?}"), format!("{subs:?}"));
            } else if shown != wtext {
                out.viol("c11.display", format!("text-wrong,{cls}"), args, wtext, shown);
            } else if parsed.as_ref().ok() != Some(&d.to_parts()) {
                let shape = if shown.starts_with('-') && !shown.is_ascii() { "negative-with-μs" } else if !shown.is_ascii() { "with-μs" } else { "ascii" };
                out.viol("c11.parse_back", format!("parse(display(d))!=d,{shape},len={}", if shown.len() <= 9 { shown.len().to_string() } else { ">9".into() }), args, format!("{:?} from {shown:?}", d.to_parts()), format!("{parsed:?}"));
            } else if json.as_ref().ok() != Some(&format!("\"{wtext}\"")) || back.as_ref().ok() != Some(&d.to_parts()) {
                out.viol("c11.serde", format!("round-trip-wrong,{cls}"), args, format!("\"{wtext}\" -> {:?}", d.to_parts()), format!("{json:?} -> {back:?}"));
            } else if let Some(bad) = others.iter().find(|o| o.as_ref().ok() != Some(&d.to_parts())) {
                out.viol("c11.serde", format!("other-deserializer-path-differs,{cls}"), args, format!("{:?}", d.to_parts()), format!("{bad:?}"));
            // the statement speaks about decomposing a duration; the epoch accessors are documented as the fields of the
            // epoch's Gregorian representation, which coincide with the decomposition of its elapsed time only from the
            // (midnight) reference epoch onward: judged there, either reading allowed before it (round 7, change C09-r7n2)
            } else if v >= 0 && (eh.0, eh.1, eh.2, eh.3, eh.4, eh.5) != (want.2, want.3, want.4, want.5, want.6, want.7) {
                out.viol("c11.epoch_accessors", "differ-from-decomposition".into(), args, format!("{want:?}"), format!("{eh:?}"));
            } else {
                let nt = near_unit(v) || v < 0;
                out.ok(19, nt, ((v < 0) as u64) | ((want.1 > 0) as u64) << 1 | ((want.7 > 0) as u64) << 2 | ((want.6 > 0) as u64) << 3 | ((want.1 > 1) as u64) << 4);
                if out.want_sample(nt) {
                    out.sample("c11.text", args, wtext, nt);
                }
            }
        }
        Err(p) => out.viol("c11.text", format!("panic:{},{cls}", p.class()), args, "no panic".into(), format!("{} {}", p.loc, p.msg)),
    }
}

pub const SPELLINGS: [(&str, Unit); 25] = [
    ("d", Unit::Day),
    ("days", Unit::Day),
    ("day", Unit::Day),
    ("h", Unit::Hour),
    ("hours", Unit::Hour),
    ("hour", Unit::Hour),
    ("hr", Unit::Hour),
    ("min", Unit::Minute),
    ("mins", Unit::Minute),
    ("minute", Unit::Minute),
    ("minutes", Unit::Minute),
    ("s", Unit::Second),
    ("second", Unit::Second),
    ("seconds", Unit::Second),
    ("sec", Unit::Second),
    ("ms", Unit::Millisecond),
    ("millisecond", Unit::Millisecond),
    ("milliseconds", Unit::Millisecond),
    ("μs", Unit::Microsecond),
    ("us", Unit::Microsecond),
    ("microsecond", Unit::Microsecond),
    ("microseconds", Unit::Microsecond),
    ("ns", Unit::Nanosecond),
    ("nanosecond", Unit::Nanosecond),
    ("nanoseconds", Unit::Nanosecond),
];
pub const VALUES: [&str; 36] = [
    "0", "1", "1.5", "10.598", "0.000001", "59", "60", "999", "1000", "36525", "2.25", "0.5",
    // decimals whose nearest double lies just below them (4.1 = 4.0999999999999996...), and whole counts whose
    // product with the unit needs more than 53 bits
    "4.1", "8.2", "32.3", "64.1", "2.3", "0.57", "1.13", "0.513988343", "0.1", "0.7", "0.6666666666666666666667", "0.3333333333333333333334", "0.0166666666666666666667", "1.6666666666666666666667", "0.9999999999999999999999999999999999999999", "0.00000000000001157407407407407407408", "9007199254740993", "123456789012345678", "72069679697923", "576870618973", "4612397135", "307446615", "20497649", "3652425",
];

/// the value a decimal text denotes, in nanoseconds of the unit, truncated toward zero: exact integer arithmetic
pub fn decimal_ns(text: &str, unit_ns: i128) -> i128 {
    let (whole, frac) = match text.split_once('.') {
        Some((w, f)) => (w, f),
        None => (text, ""),
    };
    let w: i128 = if whole.is_empty() { 0 } else { whole.parse().unwrap() };
    // floor(F * unit / 10^k) for a fraction of any length: schoolbook multiplication from the least significant digit,
    // keeping only the carry (the digits of the product below 10^k are exactly the ones discarded)
    let mut carry: i128 = 0;
    for b in frac.bytes().rev() {
        carry = ((b - b'0') as i128 * unit_ns + carry) / 10;
    }
    w * unit_ns + carry
}

/// a fraction of `digits` decimals that lies just above (rounded up from) or just below (truncated from) the exact quotient
/// n ns / unit: what a high-precision decimal library prints for a nanosecond count expressed in days, hours or minutes.
/// Dropping digits before the (truncating) conversion loses a nanosecond on the "just above" ones.
pub fn j_long_fraction(ui: usize, n: i128, digits: usize, up: bool, neg: bool, out: &mut Local) {
    const U: [(&str, i128); 6] = [("d", 86_400_000_000_000), ("h", 3_600_000_000_000), ("min", 60_000_000_000), ("s", 1_000_000_000), ("ms", 1_000_000), ("us", 1_000)];
    let (name, unit) = U[ui];
    let whole = n / unit;
    let mut r = n % unit;
    let mut ds: Vec<u8> = Vec::with_capacity(digits);
    for _ in 0..digits {
        r *= 10;
        ds.push((r / unit) as u8);
        r %= unit;
    }
    let mut w = whole;
    if up && r != 0 {
        // round the last digit up, with carry
        let mut i = digits;
        loop {
            if i == 0 {
                w += 1;
                break;
            }
            i -= 1;
            if ds[i] == 9 {
                ds[i] = 0;
            } else {
                ds[i] += 1;
                break;
            }
        }
    }
    let frac: String = ds.iter().map(|d| (b'0' + d) as char).collect();
    let num = format!("{w}.{frac}");
    let text = format!("{}{num} {name}", if neg { "-" } else { "" });
    let args = vec![ui.to_string(), n.to_string(), digits.to_string(), up.to_string(), neg.to_string()];
    let want = decimal_ns(&num, unit) * if neg { -1 } else { 1 };
    match guard(|| Duration::from_str(&text).map(alpha)) {
        Ok(Ok(g)) if g == want => out.ok(1, digits > 18, ui as u64 * 4 + up as u64 * 2 + neg as u64),
        // a text that denotes a fraction of a nanosecond below a whole count (the truncated renderings) has no exact duration:
        // the statement does not say whether it is truncated or rounded to the nearest nanosecond, so the count above is
        // accepted as well (for the rounded-up renderings both readings give the same count, which is what is demanded)
        Ok(Ok(g)) if !up && r != 0 && g == want + if neg { -1 } else { 1 } => out.ok(1, true, 64 + ui as u64),
        Ok(g) => out.viol("c11.long_fraction", format!("wrong,{name},digits{}", if digits > 38 { ">38" } else if digits > 18 { "19-38" } else { "<=18" }), args, format!("{text:?} -> {want}"), format!("{g:?}")),
        Err(p) => out.viol("c11.long_fraction", format!("panic:{}", p.class()), args, "no panic".into(), format!("{} {}", p.loc, p.msg)),
    }
}

/// one spelling: "<value> <unit>" with an optional leading '-'
pub fn j_spelling(si: usize, vi: usize, neg: bool, out: &mut Local) {
    let (sp, unit) = SPELLINGS[si];
    let text = format!("{}{} {}", if neg { "-" } else { "" }, VALUES[vi], sp);
    let args = vec![si.to_string(), vi.to_string(), neg.to_string()];
    let x: f64 = VALUES[vi].parse().unwrap();
    // "with the value they denote": the decimal text itself, not its nearest double times the unit
    let mag = decimal_ns(VALUES[vi], unit_ns(unit));
    if mag > 10_000 * 36_525 * NS_DAY / 100 {
        out.dc(0); // beyond the statement's 10 000 years
        return;
    }
    let want = if neg { -mag } else { mag };
    let r = guard(|| Duration::from_str(&text).map(alpha));
    match r {
        Ok(Ok(g)) if g == want => {
            out.ok(1, neg || x.fract() != 0.0, si as u64 * 2 + neg as u64);
            if out.want_sample(neg) {
                out.sample("c11.spelling", args, format!("{text:?} -> {want}"), neg);
            }
        }
        // "hr", "minutes" and "sec" are accepted by the code today but are not among the documented spellings: a
        // refusal is a don't-care, a wrong value is not
        Ok(Err(_)) if ["hr", "minutes", "sec"].contains(&sp) => out.dc(1),
        Ok(g) => {
            let through_f64 = g.as_ref().ok() == Some(&(if neg { -1 } else { 1 } * unit_float_model(x, unit).unwrap_or(0)));
            out.viol("c11.spelling", format!("wrong,{sp},{}{}", if neg { "negative" } else { "positive" }, if through_f64 { ",value-of-the-nearest-double-times-the-unit" } else { "" }), args, format!("{text:?} -> {want}"), format!("{g:?}"))
        }
        Err(p) => out.viol("c11.spelling", format!("panic:{},{sp}", p.class()), args, "no panic".into(), format!("{} {}", p.loc, p.msg)),
    }
}

/// every subset of components in canonical order with boundary values
pub fn j_combo(mask: u32, variant: usize, neg: bool, out: &mut Local) {
    let names = ["days", "h", "min", "s", "ms", "μs", "ns"];
    let units = [Unit::Day, Unit::Hour, Unit::Minute, Unit::Second, Unit::Millisecond, Unit::Microsecond, Unit::Nanosecond];
    let vals: [[u64; 7]; 3] = [[1, 1, 1, 1, 1, 1, 1], [36524, 23, 59, 59, 999, 999, 999], [2, 12, 30, 45, 500, 250, 125]];
    let mut text = String::new();
    if neg {
        text.push('-');
    }
    let mut want: i128 = 0;
    let mut first = true;
    for i in 0..7 {
        if mask & (1 << i) != 0 {
            if !first {
                text.push(' ');
            }
            text.push_str(&format!("{} {}", vals[variant][i], names[i]));
            want += vals[variant][i] as i128 * unit_ns(units[i]);
            first = false;
        }
    }
    if neg {
        want = -want;
    }
    let args = vec![mask.to_string(), variant.to_string(), neg.to_string()];
    let r = guard(|| Duration::from_str(&text).map(alpha));
    match r {
        Ok(Ok(g)) if g == want => {
            out.ok(1, mask.count_ones() > 1, mask as u64 | (neg as u64) << 7);
            if out.want_sample(mask.count_ones() > 2) {
                out.sample("c11.combo", args, format!("{text:?} -> {want}"), mask.count_ones() > 2);
            }
        }
        Ok(g) => {
            let shape = if neg && !text.is_ascii() && text.len() == 7 { "negative-7-bytes-with-μs" } else if !text.is_ascii() { "with-μs" } else { "ascii" };
            out.viol("c11.combo", format!("wrong,{shape}"), args, format!("{text:?} -> {want}"), format!("{g:?}"))
        }
        Err(p) => out.viol("c11.combo", format!("panic:{}", p.class()), args, "no panic".into(), format!("{} {}", p.loc, p.msg)),
    }
}

/// [+-]HH:MM, [+-]HHMM, [+-]HH, [+-]HH:MM:SS
pub fn j_offset(form: usize, neg: bool, hh: u32, mm: u32, ss: u32, out: &mut Local) {
    let sign = if neg { '-' } else { '+' };
    let (text, want) = match form {
        0 => (format!("{sign}{hh:02}:{mm:02}"), (hh * 3600 + mm * 60) as i128),
        1 => (format!("{sign}{hh:02}{mm:02}"), (hh * 3600 + mm * 60) as i128),
        2 => (format!("{sign}{hh:02}"), (hh * 3600) as i128),
        3 => (format!("{sign}{hh:02}:{mm:02}:{ss:02}"), (hh * 3600 + mm * 60 + ss) as i128),
        _ => (format!("{sign}{hh:02}{mm:02}{ss:02}"), (hh * 3600 + mm * 60 + ss) as i128),
    };
    let want = if neg { -want } else { want } * NS_S;
    let args = vec![form.to_string(), neg.to_string(), hh.to_string(), mm.to_string(), ss.to_string()];
    let r = guard(|| Duration::from_str(&text).map(alpha));
    match r {
        Ok(Ok(g)) if g == want => {
            out.ok(1, neg || ss != 0, form as u64 * 2 + neg as u64);
            if out.want_sample(neg) {
                out.sample("c11.offset", args, format!("{text:?} -> {want}"), neg);
            }
        }
        // the statement documents [+-]HH:MM[:SS]; the colon-less shapes are accepted by the code today but are not
        // demanded: a refusal is a don't-care, a wrong value is not
        Ok(Err(_)) if form == 1 || form == 2 || form == 4 => out.dc(1),
        Ok(g) => out.viol("c11.offset", format!("wrong,form{form}"), args, format!("{text:?} -> {want}"), format!("{g:?}")),
        Err(p) => out.viol("c11.offset", format!("panic:{}", p.class()), args, "no panic".into(), format!("{} {}", p.loc, p.msg)),
    }
}

pub fn run(rep: &mut Report) {
    let deep = !rep.quick();
    let years10k: i128 = 10_000 * 36_525 * NS_DAY / 100;
    let mut dl: Vec<i128> = lattice::dl(if deep { 131_072 } else { 32_768 }, true);
    // every unit multiple k*U +- 0..3 for more k, both signs (the decomposition/format lattice)
    for u in lattice::UNIT_NS.iter().take(7) {
        for k in (1..=if deep { 65_536 } else { 8_192 }).chain([86, 99, 100, 101, 255, 256, 1023, 1024, 4095, 9999, 10_000, 86_399, 86_400, 100_000, 3_652_499]) {
            for d in -3..=3 {
                dl.push(k * u + d);
                dl.push(-(k * u) + d);
            }
        }
    }
    dl.retain(|v| v.abs() <= years10k + NS_DAY);
    dl.sort();
    dl.dedup();
    rep.bound("durations", dl.len() as u64);
    rep.rule = "durations: every unit multiple k*U +- 0..3 ns for the seven units and ~100 values of k, both signs, the dense windows round 0 and +-1..3 centuries, all within 10 000 years; each is decomposed, subdivided, displayed, parsed back, serialized to JSON and back, and read through Epoch::hours()..nanoseconds(). Parser: 25 unit spellings x 30 values (incl. decimals whose nearest double is below them and whole counts needing more than 53 bits) x sign; all 127 component subsets x 3 value sets x sign; offsets [+-]HH:MM, [+-]HHMM, [+-]HH, [+-]HH:MM:SS, [+-]HHMMSS for all 24 x 60 (x {0, 59} s). Oracle: integer decomposition and a reference renderer. Non-trivial = within 3 ns of a whole number of a unit, or negative.".into();
    rep.assumptions = vec!["the sign of a positive decomposition may be 0 or +1 (the repository's suite pins 0)".into(), "forms without a space between value and unit are undocumented: not exercised".into()];
    sweep(rep, "c11.text", dl.len() as u64, |i, out| j_text(dl[i as usize], out));
    // order independence: print / parse / serialize of twelve short durations and six spellings, in every order
    {
        let ov: [i128; 12] = [0, 1, -1, NS_S, -9 * NS_S, 86_400 * NS_S, 2 * 86_400 * NS_S, -5 * 3_600 * NS_S, 86_400 * NS_S + 99, 10 * NS_S + 100_000_000, 1_003, -7_200 * NS_S];
        crate::engine::order_pairs(rep, "c11.order", 12 + 6, |i, out| if i < 12 { j_text(ov[i as usize], out) } else { j_spelling(((i - 12) * 4) as usize, (i % 5) as usize, i % 2 == 0, out) });
    }
    // interior scan (round 8): evenly spread, unremarkable durations within 10 000 years (uniform and per binade)
    {
        let nsc: u64 = if deep { 10_000_000 } else { 600_000 };
        rep.bound("interior_scan_points", nsc);
        sweep(rep, "c11.scan_text", nsc, |i, out| j_text(if i % 2 == 0 { lattice::scan_point(i / 2, 0, -years10k, years10k) } else { lattice::scan_magnitude(i / 2, 1, 0, 68).clamp(-years10k, years10k) }, out));
    }
    // long fractions: nanosecond counts written as a decimal number of days / hours / minutes / ... with 9 to 80 decimals,
    // rounded up or truncated (the value they denote is exact integer arithmetic on the text)
    {
        let dg: [usize; 12] = [9, 15, 18, 19, 24, 30, 38, 39, 40, 45, 60, 80];
        let nn: u64 = if deep { 4000 } else { 300 };
        sweep(rep, "c11.long_fraction", 6 * 12 * 4 * nn, |i, out| {
            let ui = (i % 6) as usize;
            let k = i / (6 * 12 * 4);
            let n = if k % 3 == 0 { [1i128, 2, 59_999_999_999, 1_234_567_890_123, 86_399_999_999_999, 259_200_000_000_006][(k / 3 % 6) as usize] } else { lattice::scan_point(k, 0, 1, 400_000_000_000_000) };
            j_long_fraction(ui, n, dg[((i / 6) % 12) as usize], (i / 72) % 2 == 0, (i / 144) % 2 == 1, out)
        });
    }
    let nv = VALUES.len() as u64;
    sweep(rep, "c11.spelling", 25 * nv * 2, |i, out| j_spelling((i / (2 * nv)) as usize, ((i / 2) % nv) as usize, i % 2 == 1, out));
    sweep(rep, "c11.combo", 127 * 3 * 2, |i, out| j_combo((i / 6) as u32 + 1, ((i / 2) % 3) as usize, i % 2 == 1, out));
    sweep(rep, "c11.offset", 5 * 2 * 24 * 60 * 2, |i, out| {
        let ss = if i % 2 == 0 { 0 } else { 59 };
        let j = i / 2;
        j_offset((j % 5) as usize, (j / 5) % 2 == 1, ((j / 10) % 24) as u32, ((j / 240) % 60) as u32, ss, out)
    });
}

pub fn replay(check: &str, a: &[String], out: &mut Local) -> bool {
    match check {
        "c11.text" | "c11.decompose" | "c11.subdivision" | "c11.display" | "c11.parse_back" | "c11.serde" | "c11.epoch_accessors" => j_text(p128(&a[0]), out),
        "c11.long_fraction" => j_long_fraction(a[0].parse().unwrap(), p128(&a[1]), a[2].parse().unwrap(), a[3] == "true", a[4] == "true", out),
        "c11.spelling" => j_spelling(a[0].parse().unwrap(), a[1].parse().unwrap(), a[2] == "true", out),
        "c11.combo" => j_combo(a[0].parse().unwrap(), a[1].parse().unwrap(), a[2] == "true", out),
        "c11.offset" => j_offset(a[0].parse().unwrap(), a[1] == "true", a[2].parse().unwrap(), a[3].parse().unwrap(), a[4].parse().unwrap(), out),
        _ => return false,
    }
    true
}
