pub mod common;
pub mod c01;

use crate::report::{Local, Report};

pub type RunFn = fn(&mut Report);
pub type ReplayFn = fn(&str, &[String], &mut Local) -> bool;

pub fn table() -> Vec<(&'static str, RunFn, ReplayFn)> {
    vec![
        ("C01", c01::run as RunFn, c01::replay as ReplayFn),
    ]
}
