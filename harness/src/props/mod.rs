pub mod common;
pub mod perturb;
pub mod c01;
pub mod c02;
pub mod c03;
pub mod c04;
pub mod c05;
pub mod c06;
pub mod c07;
pub mod c08;
pub mod c09;
pub mod c10;
pub mod c11;
pub mod c12;
pub mod c13;
pub mod c14;
pub mod c15;
pub mod c16;
pub mod c17;
pub mod c18;
pub mod c19;
pub mod c20;

use crate::report::{Local, Report};

pub type RunFn = fn(&mut Report);
pub type ReplayFn = fn(&str, &[String], &mut Local) -> bool;

pub fn table() -> Vec<(&'static str, RunFn, ReplayFn)> {
    vec![
        ("C01", c01::run as RunFn, c01::replay as ReplayFn),
        ("C02", c02::run as RunFn, c02::replay as ReplayFn),
        ("C03", c03::run as RunFn, c03::replay as ReplayFn),
        ("C04", c04::run as RunFn, c04::replay as ReplayFn),
        ("C05", c05::run as RunFn, c05::replay as ReplayFn),
        ("C06", c06::run as RunFn, c06::replay as ReplayFn),
        ("C07", c07::run as RunFn, c07::replay as ReplayFn),
        ("C08", c08::run as RunFn, c08::replay as ReplayFn),
        ("C09", c09::run as RunFn, c09::replay as ReplayFn),
        ("C10", c10::run as RunFn, c10::replay as ReplayFn),
        ("C11", c11::run as RunFn, c11::replay as ReplayFn),
        ("C12", c12::run as RunFn, c12::replay as ReplayFn),
        ("C13", c13::run as RunFn, c13::replay as ReplayFn),
        ("C14", c14::run as RunFn, c14::replay as ReplayFn),
        ("C15", c15::run as RunFn, c15::replay as ReplayFn),
        ("C16", c16::run as RunFn, c16::replay as ReplayFn),
        ("C17", c17::run as RunFn, c17::replay as ReplayFn),
        ("C18", c18::run as RunFn, c18::replay as ReplayFn),
        ("C19", c19::run as RunFn, c19::replay as ReplayFn),
        ("C20", c20::run as RunFn, c20::replay as ReplayFn),
    ]
}
