//! C08 Gregorian date -> Epoch: exact day count, valid dates accepted, invalid rejected.
use super::common::*;
use crate::engine::sweep;
use crate::oracle::civil::*;
use crate::oracle::dur::*;
use crate::oracle::leap::LeapTable;
use crate::oracle::scales::gregorian_zero;
use crate::report::{guard, Local, Report};
use hifitime::{is_gregorian_valid, Epoch, TimeScale};

/// times of day (ns of day) always included
pub const TOD: [i128; 8] = [
    0,
    1,
    NS_S,
    12 * 3600 * NS_S - 1,
    12 * 3600 * NS_S,
    86_399 * NS_S,
    86_399 * NS_S + 999_999_000,
    86_400 * NS_S - 1,
];
/// one rolling time of day per day index: visits every hour/minute/second value and a spread of nanosecond patterns
pub fn rolling_tod(i: i64) -> i128 {
    let i = i.rem_euclid(1 << 40) as i128;
    (i * 7919 * NS_S + i * 104_729) % (86_400 * NS_S)
}

pub fn split_tod(t: i128) -> (u8, u8, u8, u32) {
    let ns = (t % NS_S) as u32;
    let s = t / NS_S;
    ((s / 3600) as u8, ((s / 60) % 60) as u8, (s % 60) as u8, ns)
}

/// expected count (ns) in scale `ts` of the civil date-time
pub fn expected_count(days: i64, tod: i128, ts: TimeScale) -> i128 {
    let (zd, zt) = gregorian_zero(ts);
    (days - zd) as i128 * NS_DAY + tod - zt
}

/// the calendar lattice as a list of day indices (days since 1900-01-01)
pub fn cal_days(quick: bool) -> Vec<i64> {
    let mut v = vec![];
    if quick {
        // every day of 1600-2400; elsewhere in 0001-9999 the 24 month-boundary days of every year
        for d in days1900(1600, 1, 1)..=days1900(2400, 12, 31) {
            v.push(d);
        }
        for y in (1..=9999).filter(|y| !(1600..=2400).contains(y)) {
            for m in 1..=12 {
                v.push(days1900(y, m, 1));
                v.push(days1900(y, m, month_len(y, m)));
            }
        }
    } else {
        for d in days1900(1, 1, 1)..=days1900(9999, 12, 31) {
            v.push(d);
        }
    }
    // far years: every day (thorough) / month boundaries + Feb 28/29 (quick)
    for y in [-30_000i64, -20_000, -10_000, -4713, -401, -400, -1, 0, 10_000, 10_001, 12_000, 20_000, 30_000] {
        if quick {
            for m in 1..=12 {
                v.push(days1900(y, m, 1));
                v.push(days1900(y, m, month_len(y, m)));
            }
            v.push(days1900(y, 2, 28));
        } else {
            for d in days1900(y, 1, 1)..=days1900(y, 12, 31) {
                v.push(d);
            }
        }
    }
    v.sort();
    v.dedup();
    v
}

pub fn j_value(days: i64, tod: i128, ts: TimeScale, full: bool, out: &mut Local) {
    let (y, m, d) = civil1900(days);
    let (h, mi, s, ns) = split_tod(tod);
    let want = expected_count(days, tod, ts);
    let args = vec![days.to_string(), enc(tod), scale_name(ts).to_string()];
    let (yy, mm, dd) = (y as i32, m as u8, d as u8);
    let r = guard(|| {
        let a = Epoch::maybe_from_gregorian(yy, mm, dd, h, mi, s, ns, ts).map(|e| (alpha(e.duration), e.time_scale));
        let v = is_gregorian_valid(yy, mm, dd, h, mi, s, ns);
        let mut conv: Vec<(&'static str, i128, TimeScale)> = vec![];
        if full && a.is_ok() {
            let p = |e: Epoch| (alpha(e.duration), e.time_scale);
            let e = Epoch::from_gregorian(yy, mm, dd, h, mi, s, ns, ts);
            conv.push(("from_gregorian", p(e).0, p(e).1));
            if ts == TimeScale::UTC {
                let e = Epoch::maybe_from_gregorian_utc(yy, mm, dd, h, mi, s, ns).unwrap();
                conv.push(("maybe_from_gregorian_utc", p(e).0, p(e).1));
                let e = Epoch::from_gregorian_utc(yy, mm, dd, h, mi, s, ns);
                conv.push(("from_gregorian_utc", p(e).0, p(e).1));
            }
            if ts == TimeScale::TAI {
                let e = Epoch::maybe_from_gregorian_tai(yy, mm, dd, h, mi, s, ns).unwrap();
                conv.push(("maybe_from_gregorian_tai", p(e).0, p(e).1));
                let e = Epoch::from_gregorian_tai(yy, mm, dd, h, mi, s, ns);
                conv.push(("from_gregorian_tai", p(e).0, p(e).1));
            }
            if ns == 0 {
                let e = Epoch::from_gregorian_hms(yy, mm, dd, h, mi, s, ts);
                conv.push(("from_gregorian_hms", p(e).0, p(e).1));
                if ts == TimeScale::UTC {
                    let e = Epoch::from_gregorian_utc_hms(yy, mm, dd, h, mi, s);
                    conv.push(("from_gregorian_utc_hms", p(e).0, p(e).1));
                }
                if ts == TimeScale::TAI {
                    let e = Epoch::from_gregorian_tai_hms(yy, mm, dd, h, mi, s);
                    conv.push(("from_gregorian_tai_hms", p(e).0, p(e).1));
                }
            }
            if tod == 0 {
                let e = Epoch::from_gregorian_at_midnight(yy, mm, dd, ts);
                conv.push(("from_gregorian_at_midnight", p(e).0, p(e).1));
                if ts == TimeScale::UTC {
                    let e = Epoch::from_gregorian_utc_at_midnight(yy, mm, dd);
                    conv.push(("from_gregorian_utc_at_midnight", p(e).0, p(e).1));
                }
                if ts == TimeScale::TAI {
                    let e = Epoch::from_gregorian_tai_at_midnight(yy, mm, dd);
                    conv.push(("from_gregorian_tai_at_midnight", p(e).0, p(e).1));
                }
            }
            if tod == 12 * 3600 * NS_S {
                let e = Epoch::from_gregorian_at_noon(yy, mm, dd, ts);
                conv.push(("from_gregorian_at_noon", p(e).0, p(e).1));
                if ts == TimeScale::UTC {
                    let e = Epoch::from_gregorian_utc_at_noon(yy, mm, dd);
                    conv.push(("from_gregorian_utc_at_noon", p(e).0, p(e).1));
                }
                if ts == TimeScale::TAI {
                    let e = Epoch::from_gregorian_tai_at_noon(yy, mm, dd);
                    conv.push(("from_gregorian_tai_at_noon", p(e).0, p(e).1));
                }
            }
        }
        (a, v, conv)
    });
    let era = if y < 1900 { "before-1900" } else if y > 3400 { "after-3400" } else { "1900-3400" };
    match r {
        Ok((Ok((g, gts)), valid, conv)) => {
            if gts != ts {
                out.viol("c08.value", "scale-label-wrong".into(), args, scale_name(ts).into(), scale_name(gts).into());
            } else if g != want {
                let dd = (g - want) / NS_DAY;
                let cls = if (g - want) % NS_DAY == 0 { format!("off-by-{dd}-days") } else { format!("diff={}", diffclass(g, want)) };
                out.viol("c08.value", format!("count-wrong,{cls},{era},{}", scale_name(ts)), args, format!("{y:04}-{m:02}-{d:02} {h:02}:{mi:02}:{s:02}.{ns:09} {} = {}", scale_name(ts), describe(want)), describe(g));
            } else if !valid {
                out.viol("c08.value", "is_gregorian_valid-false-but-accepted".into(), args, "true".into(), "false".into());
            } else if let Some((name, cg, cts)) = conv.iter().find(|(_, cg, cts)| *cg != want || *cts != ts) {
                out.viol("c08.value", format!("convenience-differs,{name}"), args, describe(want), format!("{} {}", scale_name(*cts), describe(*cg)));
            } else {
                let nt = d == 1 || d == month_len(y, m) || y < 1900 || (m == 2 && d == 29);
                out.ok(2 + conv.len() as u64, nt, (ts as u64) | ((y < 1900) as u64) << 4 | ((m == 2 && d == 29) as u64) << 5 | (m as u64) << 6);
                if out.want_sample(nt) {
                    out.sample("c08.value", args, format!("{y:04}-{m:02}-{d:02} {h:02}:{mi:02}:{s:02}.{ns:09} {} -> {}", scale_name(ts), describe(want)), nt);
                }
            }
        }
        Ok((Err(e), _, _)) => out.viol("c08.value", format!("valid-date-rejected,{era}"), args, format!("Ok for {y:04}-{m:02}-{d:02} {h:02}:{mi:02}:{s:02}.{ns:09}"), format!("Err({e})")),
        Err(p) => out.viol("c08.value", format!("panic:{},{era}", p.class()), args, "no panic".into(), format!("{} {}", p.loc, p.msg)),
    }
}

pub const R_YEARS: [i32; 36] = [
    -30_000, -401, -400, -1, 0, 1, 4, 100, 400, 1582, 1899, 1900, 1904, 1971, 1972, 1973, 1979, 1980, 1981, 1988, 1996, 1997, 1999, 2000, 2005, 2006, 2012, 2015, 2016, 2017, 2023, 2024, 2100, 9999, 10_000, 30_000,
];
pub const R_MONTHS: [u8; 16] = [0, 1, 2, 3, 4, 5, 6, 7, 8, 9, 10, 11, 12, 13, 14, 255];
pub const R_HOURS: [u8; 6] = [0, 12, 23, 24, 25, 255];
pub const R_MINUTES: [u8; 4] = [0, 59, 60, 255];
pub const R_SECONDS: [u8; 5] = [0, 59, 60, 61, 255];
pub const R_NANOS: [u32; 5] = [0, 999_999_999, 1_000_000_000, 1_000_000_001, u32::MAX];

/// three-valued classification of a field tuple: Some(true) must be accepted, Some(false) must be rejected, None = silent
pub fn classify(y: i32, m: u8, d: u8, h: u8, mi: u8, s: u8, ns: u32, leap_days: &[i64]) -> Option<bool> {
    let yl = y as i64;
    if m == 0 || m > 12 || d == 0 || d as i64 > month_len(yl, m as i64) || h > 24 || mi > 59 || s > 60 || ns > 1_000_000_000 {
        return Some(false);
    }
    if s == 60 {
        if h != 23 || mi != 59 {
            return Some(false);
        }
        let day = days1900(yl, m as i64, d as i64);
        if leap_days.contains(&day) {
            // IERS inserted a leap second at the end of this day
            return if h == 23 && mi == 59 && ns < 1_000_000_000 { Some(true) } else { None };
        }
        // 1971-12-31 precedes the first table entry, which is not an inserted leap second: silent
        if day == days1900(1971, 12, 31) {
            return None;
        }
        return Some(false);
    }
    if h == 24 || ns == 1_000_000_000 {
        return None; // the statement lists hour > 24 and nanosecond > 10^9 as invalid and hour < 24, ns < 10^9 as valid
    }
    Some(true)
}

/// all ordered pairs (first, second) of the menu, sequentially: the second construction must not depend on the first
pub fn j_order(out: &mut Local) {
    let mut years: Vec<i64> = vec![];
    for k in [0i64, 1, 4, 99, 100, 101, 399, 400, 401, 402, 500, 1000, 1899, 1900, 1901, 5000, 8099, 10_000, 20_000] {
        years.push(1900 + k);
        years.push(1900 - k);
    }
    years.sort();
    years.dedup();
    let menu: Vec<(i64, i64, i64)> = years.iter().flat_map(|y| [(*y, 1i64, 1i64), (*y, 3, 1), (*y, 12, 31)]).collect();
    let scales = [TimeScale::TAI, TimeScale::UTC, TimeScale::GPST, TimeScale::ET];
    let mut bad: Option<(usize, usize, i128, String)> = None;
    let mut n = 0u64;
    'outer: for (i, a) in menu.iter().enumerate() {
        for (j, b) in menu.iter().enumerate() {
            let ts = scales[(i + j) % 4];
            let want = expected_count(days1900(b.0, b.1, b.2), 43_200 * NS_S + 5, ts);
            let r = guard(|| {
                let _ = Epoch::maybe_from_gregorian(a.0 as i32, a.1 as u8, a.2 as u8, 0, 0, 0, 0, ts);
                Epoch::maybe_from_gregorian(b.0 as i32, b.1 as u8, b.2 as u8, 12, 0, 0, 5, ts).map(|e| (alpha(e.duration), e.time_scale))
            });
            n += 1;
            match r {
                Ok(Ok((c, t))) if c == want && t == ts => {}
                other => {
                    bad = Some((i, j, want, format!("{other:?}")));
                    break 'outer;
                }
            }
        }
    }
    match bad {
        None => {
            out.ok(2 * n, true, 0);
            out.sample("c08.order", vec![menu.len().to_string()], format!("{n} ordered pairs, every second construction exact"), true);
        }
        Some((i, j, want, got)) => out.viol(
            "c08.order",
            "second-construction-depends-on-the-first".into(),
            vec![format!("{:?}", menu[i]), format!("{:?}", menu[j])],
            format!("{want} for {:?} whatever was built before", menu[j]),
            format!("{got} after building {:?}", menu[i]),
        ),
    }
}

pub fn j_reject(y: i32, m: u8, d: u8, h: u8, mi: u8, s: u8, ns: u32, ts: TimeScale, leap_days: &[i64], out: &mut Local) {
    let args = vec![y.to_string(), m.to_string(), d.to_string(), h.to_string(), mi.to_string(), s.to_string(), ns.to_string(), scale_name(ts).to_string()];
    let r = guard(|| (Epoch::maybe_from_gregorian(y, m, d, h, mi, s, ns, ts).map(|e| alpha(e.duration)), is_gregorian_valid(y, m, d, h, mi, s, ns)));
    let cls = classify(y, m, d, h, mi, s, ns, leap_days);
    let which = || -> &'static str {
        let yl = y as i64;
        if m == 0 || m > 12 {
            "month"
        } else if m == 2 && is_leap(yl) && (d == 30 || d == 31) {
            "feb-30-or-31-in-leap-year"
        } else if d == 0 || d as i64 > month_len(yl, m as i64) {
            "day"
        } else if h > 24 {
            "hour"
        } else if mi > 59 {
            "minute"
        } else if s > 60 {
            "second>60"
        } else if s == 60 {
            "second=60"
        } else if ns > 1_000_000_000 {
            "nanos"
        } else {
            "none"
        }
    };
    match r {
        Ok((res, valid)) => match cls {
            None => out.dc(2),
            Some(false) => {
                if res.is_ok() || valid {
                    out.viol("c08.reject", format!("invalid-accepted,{}", which()), args, "Err / false".into(), format!("{res:?} / is_gregorian_valid={valid}"));
                } else {
                    out.ok(2, true, 1 + (which().len() as u64) * 7);
                    if out.want_sample(true) {
                        out.sample("c08.reject", args, format!("rejected ({})", which()), true);
                    }
                }
            }
            Some(true) => {
                if res.is_err() || !valid {
                    out.viol("c08.reject", format!("valid-rejected,{}", if s == 60 { "leap-second" } else { "plain" }), args, "Ok / true".into(), format!("{res:?} / is_gregorian_valid={valid}"));
                } else if s < 60 {
                    // the value too
                    let want = expected_count(days1900(y as i64, m as i64, d as i64), (h as i128 * 3600 + mi as i128 * 60 + s as i128) * NS_S + ns as i128, ts);
                    if res != Ok(want) {
                        out.viol("c08.reject", "valid-but-wrong-count".into(), args, enc(want), format!("{res:?}"));
                    } else {
                        out.ok(2, false, 0);
                    }
                } else {
                    out.ok(2, true, 3);
                    if out.want_sample(true) {
                        out.sample("c08.reject", args, "leap second accepted".into(), true);
                    }
                }
            }
        },
        Err(p) => out.viol("c08.reject", format!("panic:{},{}", p.class(), which()), args, "no panic".into(), format!("{} {}", p.loc, p.msg)),
    }
}

pub fn run(rep: &mut Report) {
    let q = rep.quick();
    let leap = LeapTable::load().expect("leap").0;
    let leap_days = leap.leap_days();
    let days = cal_days(q);
    rep.bound("calendar_days", days.len() as u64);
    rep.bound("times_of_day", "8 fixed (both ends of the day, noon +-1 ns, 23:59:59.999999000) + one rolling per day");
    rep.rule = if q {
        "every day of 1600-2400, the 24 month-boundary days of every other year 0001-9999, month boundaries of 13 far years (-30000..30000) x 9 times of day x 9 scales through maybe_from_gregorian and is_gregorian_valid (convenience constructors on every 16th); full rejection product of boundary field values; second = 60 on the last day of every month 1958-2030. Oracle: days_from_civil. Non-trivial = first/last day of a month, Feb 29, before 1900.".into()
    } else {
        "every day of years 0001-9999 and every day of 13 far years (-30000..30000) x 9 times of day x 9 scales; convenience constructors on every 16th; full rejection product; second = 60 sweep. Oracle: days_from_civil.".into()
    };
    rep.assumptions = vec!["hour == 24, nanosecond == 10^9 and second == 60 on 1971-12-31 are don't-cares (statement silent)".into()];
    let nd = days.len() as u64;
    for ts in SCALES {
        sweep(rep, &format!("c08.value[{}]", scale_name(ts)), nd * 9, |i, out| {
            let di = (i / 9) as usize;
            let k = (i % 9) as usize;
            let tod = if k < 8 { TOD[k] } else { rolling_tod(days[di]) };
            j_value(days[di], tod, ts, i % 16 == 0, out)
        });
    }
    // interior scan (round 8): evenly spread, unremarkable (day, nanosecond of day) pairs over years 0001-9999 and, more thinly,
    // over -30 000 .. 30 000, in every scale
    {
        let nsc: u64 = if q { 200_000 } else { 12_000_000 };
        rep.bound("interior_scan_points", nsc);
        let (d0, d1) = (days1900(1, 1, 1) as i128, days1900(9999, 12, 31) as i128);
        let (f0, f1) = (days1900(-30_000, 1, 1) as i128, days1900(30_000, 12, 31) as i128);
        sweep(rep, "c08.scan_value", 9 * nsc, |i, out| {
            let k = i / 9;
            let day = if k % 8 == 7 { crate::lattice::scan_point(k, 0, f0, f1) } else { crate::lattice::scan_point(k, 1, d0, d1) } as i64;
            j_value(day, crate::lattice::scan_point(k, 2, 0, NS_DAY - 1), SCALES[(i % 9) as usize], i % 16 == 0, out)
        });
    }
    {
        // structured times of day: every whole hour, every whole minute of two hours, every whole second of two minutes, whole
        // milliseconds / microseconds - values that are special for the user, not for the code (a borrow or carry chain over the
        // time-of-day fields goes wrong when the lower fields are exactly zero)
        let mut st: Vec<i128> = vec![];
        for h in 0..24i128 {
            st.push(h * 3600 * NS_S);
        }
        for mi in 0..60i128 {
            st.push((6 * 3600 + mi * 60) * NS_S);
            st.push((23 * 3600 + mi * 60) * NS_S);
            st.push((6 * 3600 + 30 * 60 + mi) * NS_S);
            st.push((23 * 3600 + 59 * 60 + mi) * NS_S);
        }
        for k in [1i128, 2, 10, 100, 999] {
            st.push(k * 1_000_000);
            st.push(k * 1_000);
            st.push(12 * 3600 * NS_S + k * 1_000_000);
            st.push(86_399 * NS_S + k * 1_000_000);
        }
        st.sort();
        st.dedup();
        let days_s: Vec<i64> = {
            let (d0, d1) = (days1900(1, 1, 1), days1900(9999, 12, 31));
            let mut v: Vec<i64> = (d0..=d1).step_by(if q { 4999 } else { 499 }).collect();
            v.extend([-1, 0, 1, -15_020, -36_525, -36_524, 36_524, 36_525, days1900(1858, 11, 16), days1900(1858, 11, 17), days1900(1899, 12, 31), days1900(1, 1, 1), days1900(9999, 12, 31), days1900(2016, 12, 31), days1900(1980, 1, 5), days1900(2000, 1, 1)]);
            v.sort();
            v.dedup();
            v
        };
        let (ns_, nd_) = (st.len() as u64, days_s.len() as u64);
        rep.bound("structured_times_of_day", format!("{ns_} times of day x {nd_} days x 9 scales"));
        sweep(rep, "c08.value[structured-tod]", ns_ * nd_ * 9, |i, out| j_value(days_s[((i / 9) / ns_) as usize], st[((i / 9) % ns_) as usize], SCALES[(i % 9) as usize], i % 16 == 0, out));
    }
    // far years: EVERY year of -30 000 ..= 30 000 (odd and even, every residue of the 4/100/400 rule) on 1 January,
    // 1 March and 31 December, at three times of day, in every scale
    let far_tod: [i128; 3] = [0, 43_200 * NS_S + 1, 86_399 * NS_S + 999_999_999];
    let ny: u64 = 60_001;
    rep.bound("far_year_scan", format!("{ny} years x 3 dates x 3 times of day x 9 scales"));
    sweep(rep, "c08.value[far-years]", ny * 3 * 3 * 9, |i, out| {
        let ts = SCALES[(i % 9) as usize];
        let tod = far_tod[((i / 9) % 3) as usize];
        let y = ((i / 81) % ny) as i64 - 30_000;
        let (m, d) = [(1i64, 1i64), (3, 1), (12, 31)][((i / 27) % 3) as usize];
        j_value(days1900(y, m, d), tod, ts, i % 16 == 0, out)
    });
    // order independence (operation sequences of depth 2, run on ONE thread while nothing else calls the library): every
    // ordered pair of a menu of 114 dates - years mirrored about 1900 and about 0, leap / century / 400-year classes,
    // the far range - is built back to back, and the SECOND result must be the oracle's whatever was built first: a
    // constructor that keeps state between calls (a memo, a cursor into a table) shows here and nowhere else
    {
        let mut years: Vec<i64> = vec![];
        for k in [0i64, 1, 4, 99, 100, 101, 399, 400, 401, 402, 500, 1000, 1899, 1900, 1901, 5000, 8099, 10_000, 20_000] {
            years.push(1900 + k);
            years.push(1900 - k);
        }
        years.sort();
        years.dedup();
        let menu: Vec<i64> = years.iter().flat_map(|y| [days1900(*y, 1, 1), days1900(*y, 3, 1), days1900(*y, 12, 31)]).collect();
        let os = [TimeScale::TAI, TimeScale::UTC, TimeScale::GPST, TimeScale::ET];
        crate::engine::order_pairs(rep, "c08.order", menu.len() as u64, |i, out| j_value(menu[i as usize], 43_200 * NS_S + 5, os[(i % 4) as usize], i % 5 == 0, out));
    }
    // rejection product
    let days_ax: Vec<u8> = (0..=33).chain([255]).collect();
    let dims = [R_YEARS.len(), R_MONTHS.len(), days_ax.len(), R_HOURS.len(), R_MINUTES.len(), R_SECONDS.len(), R_NANOS.len()];
    let total: u64 = dims.iter().map(|d| *d as u64).product();
    rep.bound("rejection_product", format!("{dims:?} = {total} tuples"));
    sweep(rep, "c08.reject", total, |i, out| {
        let mut r = i;
        let mut idx = [0usize; 7];
        for k in (0..7).rev() {
            idx[k] = (r % dims[k] as u64) as usize;
            r /= dims[k] as u64;
        }
        let ts = SCALES[(i % 9) as usize];
        j_reject(R_YEARS[idx[0]], R_MONTHS[idx[1]], days_ax[idx[2]], R_HOURS[idx[3]], R_MINUTES[idx[4]], R_SECONDS[idx[5]], R_NANOS[idx[6]], ts, &leap_days, out)
    });
    // second = 60 on the last day of every month 1958-2030 at four times of day, all scales
    let mut l60 = vec![];
    for y in 1958..=2030 {
        for m in 1..=12u8 {
            for (h, mi) in [(23u8, 59u8), (23, 58), (0, 0), (12, 0), (22, 59)] {
                for ns in [0u32, 999_999_999] {
                    l60.push((y, m, month_len(y as i64, m as i64) as u8, h, mi, ns));
                    if m == 6 || m == 12 {
                        l60.push((y, m, month_len(y as i64, m as i64) as u8 - 1, h, mi, ns));
                    }
                }
            }
        }
    }
    let n60 = l60.len() as u64;
    sweep(rep, "c08.leap60", n60 * 9, |i, out| {
        let (y, m, d, h, mi, ns) = l60[(i / 9) as usize];
        j_reject(y, m, d, h, mi, 60, ns, SCALES[(i % 9) as usize], &leap_days, out)
    });
}

pub fn replay(check: &str, a: &[String], out: &mut Local) -> bool {
    match check {
        "c08.order" => j_order(out),
        "c08.value" => j_value(p64(&a[0]), p128(&a[1]), scale_from(&a[2]), true, out),
        "c08.reject" | "c08.leap60" => {
            let leap = LeapTable::load().expect("leap").0;
            j_reject(a[0].parse().unwrap(), a[1].parse().unwrap(), a[2].parse().unwrap(), a[3].parse().unwrap(), a[4].parse().unwrap(), a[5].parse().unwrap(), a[6].parse().unwrap(), scale_from(&a[7]), &leap.leap_days(), out)
        }
        _ => return false,
    }
    true
}
