//! C15 TimeSeries yields exactly start + k*step, in order, up to the end bound.
use super::common::*;
use crate::engine::sweep;
use crate::oracle::dur::*;
use crate::oracle::leap::{LeapTable, DIGEST, NS};
use crate::oracle::scales;
use crate::report::{guard, Local, Report};
use hifitime::{Epoch, TimeScale, TimeSeries};

#[derive(Clone, Copy, Debug)]
pub struct Series {
    pub ts: TimeScale,
    pub start: i128,
    pub end_ts: TimeScale,
    pub span: i128, // desired span in the model (end - start measured in the end's scale)
    pub step: i128,
    pub incl: bool,
}

/// iterate the real series to exhaustion and compare with the list model
pub fn j_series(s: &Series, leap: &LeapTable, out: &mut Local) {
    let args = vec![scale_name(s.ts).to_string(), enc(s.start), scale_name(s.end_ts).to_string(), enc(s.span), enc(s.step), s.incl.to_string()];
    // the end epoch, given in end_ts: start re-expressed in end_ts, plus the span
    let start_in_end = if s.end_ts == s.ts { Some(s.start) } else { scales::to_tai(s.start, s.ts, leap).and_then(|t| scales::from_tai(t, s.end_ts, leap)) };
    let Some(sie) = start_in_end else {
        out.dc(0); // start has no count in the end's scale (inside an inserted UTC interval)
        return;
    };
    let end = sie + s.span;
    let n_items: i128 = if s.incl { s.span / s.step + 1 } else { (s.span + s.step - 1) / s.step };
    let n_items = if s.span < 0 { 0 } else { n_items };
    // Mixed scales: "k x step < end - start" measures the span in the END's scale (C04: the left operand's), while the
    // items advance in the START's scale and "nothing is yielded past the end" compares instants. Across a leap second the
    // two readings give different counts and the statement cannot be met both ways: either count is accepted there.
    let n_alt: i128 = if s.end_ts == s.ts {
        n_items
    } else {
        match scales::to_tai(end, s.end_ts, leap).and_then(|t| scales::from_tai(t, s.ts, leap)) {
            Some(end_in_start) => {
                let sp = end_in_start - s.start;
                if sp < 0 {
                    0
                } else if s.incl {
                    sp / s.step + 1
                } else {
                    (sp + s.step - 1) / s.step
                }
            }
            None => n_items,
        }
    };
    // ... but only where the statement really contradicts itself: when the formula's count is the LARGER one, its last items
    // lie at or past the end instant ("nothing is yielded past the end"), so either count is accepted; when it is the
    // SMALLER one, every item it yields lies before the end and the instants reading would add items with k x step >= end -
    // start, against "for exactly those k": only the formula's count is right (round 8, C15-r8s3)
    let n_alt = n_alt.min(n_items);
    let n_max = n_items.max(n_alt);
    if n_items != n_alt && n_max > 1_000_000 {
        // two readings, one of them far too long to step through (a nanosecond step across a leap second): accept the
        // short count, or a correct prefix of the long one
        let start_e = Epoch::from_duration(mk(s.start), s.ts);
        let end_x = Epoch::from_duration(mk(end), s.end_ts);
        let stp = mk(s.step);
        let short = n_items.min(n_alt);
        match guard(|| {
            let it = if s.incl { TimeSeries::inclusive(start_e, end_x, stp) } else { TimeSeries::exclusive(start_e, end_x, stp) };
            let v: Vec<Epoch> = it.take(short as usize + 1000).collect();
            v
        }) {
            Ok(v) => {
                let items_ok = v.iter().enumerate().all(|(j, e)| e.time_scale == s.ts && alpha(e.duration) == s.start + j as i128 * s.step);
                if items_ok && (v.len() as i128 == short || v.len() as i128 == short + 1000) {
                    out.ok(v.len() as u64, true, 31);
                } else {
                    out.viol("c15.series", "two-readings,neither-count".into(), args, format!("{short} or {n_max} items"), format!("{} items (prefix ok: {items_ok})", v.len()));
                }
            }
            Err(p) => out.viol("c15.series", format!("panic:{}", p.class()), args, "no panic".into(), format!("{} {}", p.loc, p.msg)),
        }
        return;
    }
    let start = Epoch::from_duration(mk(s.start), s.ts);
    let end_e = Epoch::from_duration(mk(end), s.end_ts);
    let step = mk(s.step);
    // series far too long to exhaust (2^53 .. 2^80 items): the first items, and the adaptor path that consults size_hint
    let huge = n_items > 50_000_000;
    let r = guard(|| {
        let mut it = if s.incl { TimeSeries::inclusive(start, end_e, step) } else { TimeSeries::exclusive(start, end_e, step) };
        let mut k: i128 = 0;
        let mut prev: Option<i128> = None;
        if huge {
            for j in 0..6i128 {
                match it.next() {
                    Some(e) if e.time_scale == s.ts && alpha(e.duration) == s.start + j * s.step => {}
                    Some(e) => return Err((j, "skips-or-drifts-forward", format!("item #{j} = {}", s.start + j * s.step), format!("{} {}", scale_name(e.time_scale), alpha(e.duration)))),
                    None => return Err((j, "stops-early", format!("{n_items} items"), format!("{j} items"))),
                }
            }
            let it2 = if s.incl { TimeSeries::inclusive(start, end_e, step) } else { TimeSeries::exclusive(start, end_e, step) };
            let head: Vec<Epoch> = it2.take(3).collect();
            if head.len() != 3 || head.iter().enumerate().any(|(j, e)| alpha(e.duration) != s.start + j as i128 * s.step) {
                return Err((3, "collect-differs-from-next", "3 items".into(), format!("{} items", head.len())));
            }
            return Ok(6);
        }
        loop {
            match it.next() {
                Some(e) => {
                    let c = alpha(e.duration);
                    if e.time_scale != s.ts {
                        return Err((k, "item-in-wrong-scale", format!("{}", scale_name(s.ts)), format!("{}", scale_name(e.time_scale))));
                    }
                    if k >= n_max {
                        return Err((k, "yields-past-the-end", format!("{n_items} items"), format!("item #{k} = {c}")));
                    }
                    if c != s.start + k * s.step {
                        let cls = if Some(c) == prev { "duplicate" } else if c > s.start + k * s.step { "skips-or-drifts-forward" } else { "drifts-backward" };
                        return Err((k, cls, format!("item #{k} = {}", s.start + k * s.step), format!("{c}")));
                    }
                    prev = Some(c);
                    k += 1;
                }
                None => break,
            }
        }
        if k != n_items && k != n_alt {
            return Err((k, "stops-early", format!("{n_items} items"), format!("{k} items")));
        }
        let n_items = k; // the other ways of driving the iterator must agree with next()
        // terminated: stays terminated
        if it.next().is_some() {
            return Err((k, "resumes-after-none", "None".into(), "Some".into()));
        }
        // the other ways of driving the same iterator: collect, a for loop, and by_ref().take(j) followed by the rest
        if n_items <= 100_000 {
            let mk_it = || if s.incl { TimeSeries::inclusive(start, end_e, step) } else { TimeSeries::exclusive(start, end_e, step) };
            let want = |j: i128| (s.ts, s.start + j * s.step);
            let all: Vec<Epoch> = mk_it().collect();
            if all.len() as i128 != n_items || all.iter().enumerate().any(|(j, e)| (e.time_scale, alpha(e.duration)) != want(j as i128)) {
                return Err((k, "collect-differs-from-next", format!("{n_items} items"), format!("{} items", all.len())));
            }
            let mut cnt: i128 = 0;
            for e in mk_it() {
                if (e.time_scale, alpha(e.duration)) != want(cnt) {
                    return Err((cnt, "for-loop-differs-from-next", format!("{:?}", want(cnt)), format!("{}", alpha(e.duration))));
                }
                cnt += 1;
            }
            if cnt != n_items {
                return Err((cnt, "for-loop-differs-from-next", format!("{n_items} items"), format!("{cnt} items")));
            }
            let mut it2 = mk_it();
            let head = (n_items / 2).min(3) as usize;
            let mut both: Vec<Epoch> = it2.by_ref().take(head).collect();
            both.extend(it2);
            if both.len() as i128 != n_items || both.iter().enumerate().any(|(j, e)| (e.time_scale, alpha(e.duration)) != want(j as i128)) {
                return Err((k, "resumed-iteration-differs", format!("{n_items} items"), format!("{} items", both.len())));
            }
            // forward adaptors on a fresh and on a partially consumed iterator (nth, skip, step_by, count, last are all
            // defined through next(); an override must agree), and a clone taken mid-way
            if n_items <= 4096 {
                let n = n_items as usize;
                let item = |j: usize| if (j as i128) < n_items { Some(want(j as i128)) } else { None };
                let view = |e: Option<Epoch>| e.map(|e| (e.time_scale, alpha(e.duration)));
                for used in [0usize, 1, n / 2] {
                    if used > n {
                        continue;
                    }
                    let fresh = || {
                        let mut it = mk_it();
                        for _ in 0..used {
                            it.next();
                        }
                        it
                    };
                    let rest = n - used;
                    for kk in [0usize, 1, 2, rest.saturating_sub(1), rest, rest + 1] {
                        let mut it = fresh();
                        if view(it.nth(kk)) != item(used + kk) {
                            return Err((kk as i128, "nth-differs-from-next", format!("after {used} items nth({kk}) = item #{}", used + kk), "another item".into()));
                        }
                        if used + kk < n && view(it.next()) != item(used + kk + 1) {
                            return Err((kk as i128, "nth-leaves-wrong-position", format!("item #{}", used + kk + 1), "another item".into()));
                        }
                        if view(fresh().skip(kk).next()) != item(used + kk) {
                            return Err((kk as i128, "skip-differs-from-next", format!("after {used} items skip({kk}).next() = item #{}", used + kk), "another item".into()));
                        }
                        let stepped: Vec<(TimeScale, i128)> = fresh().step_by(kk + 1).take(n + 2).map(|e| (e.time_scale, alpha(e.duration))).collect();
                        let want_st: Vec<(TimeScale, i128)> = (used..n).step_by(kk + 1).map(|j| want(j as i128)).collect();
                        if stepped != want_st {
                            return Err((kk as i128, "step_by-differs-from-next", format!("{} items", want_st.len()), format!("{} items", stepped.len())));
                        }
                    }
                    if fresh().count() != rest || view(fresh().last()) != if rest > 0 { item(n - 1) } else { None } {
                        return Err((used as i128, "count-or-last-differs-from-next", format!("{rest} items left"), "another count or last item".into()));
                    }
                    let it = fresh();
                    let cl: Vec<(TimeScale, i128)> = it.clone().map(|e| (e.time_scale, alpha(e.duration))).collect();
                    let orig: Vec<(TimeScale, i128)> = it.map(|e| (e.time_scale, alpha(e.duration))).collect();
                    if cl != orig || cl.len() != rest {
                        return Err((used as i128, "clone-differs-from-original", format!("{rest} items left"), format!("{} / {} items", cl.len(), orig.len())));
                    }
                }
            }
        }
        Ok(k)
    });
    match r {
        Ok(Ok(k)) => {
            let multiple = s.span % s.step == 0;
            let nt = multiple || s.end_ts != s.ts || s.start < 0;
            out.ok(4 * k as u64 + 2, nt, (s.incl as u64) | (multiple as u64) << 1 | ((s.end_ts != s.ts) as u64) << 2 | ((k == 0) as u64) << 3 | ((k == 1) as u64) << 4);
            if out.want_sample(nt) {
                out.sample("c15.series", args, format!("{k} items then None"), nt);
            }
        }
        Ok(Err((k, cls, exp, obs))) => {
            let mode = if s.incl { "inclusive" } else { "exclusive" };
            let mult = if s.span % s.step == 0 { "span-multiple-of-step" } else { "span-not-multiple" };
            let sc = if s.end_ts == s.ts { "same-scale" } else { "end-in-other-scale" };
            out.viol("c15.series", format!("{cls},{mode},{mult},{sc}"), args, exp, format!("{obs} (after {k} items)"));
        }
        Err(p) => out.viol("c15.series", format!("panic:{}", p.class()), args, "no panic".into(), format!("{} {}", p.loc, p.msg)),
    }
}

pub fn starts(ts: TimeScale) -> Vec<i128> {
    let sh = match ts {
        TimeScale::ET | TimeScale::TDB => crate::lattice::J2000_TAI,
        TimeScale::UTC => 0,
        _ => scales::zero_tai(ts).unwrap(),
    };
    let mut v = vec![0, -1, 1, -NS, -3 * NS, -86_400 * NS, NPC - 2, -NPC + 2, NPC - 2 * NS, 2 * NPC - 30 * NS, -5 * NPC + 7, 12_345_678_901_234_567];
    for (t, d) in [DIGEST[27], DIGEST[9], DIGEST[0]] {
        for o in [-3i128 * NS, -NS - 1, -NS / 2, 0, 20 * NS] {
            v.push(t as i128 * NS + o - sh);
            v.push((t + d) as i128 * NS + o - sh);
        }
    }
    v.sort();
    v.dedup();
    v
}

pub fn space(q: bool) -> Vec<Series> {
    // quick: 11 spans x 5 steps; thorough: every span 0..=64 and spans round 100, 128, 256 and 1000 units x 10 steps
    let spans: Vec<i128> = if q { vec![0, 1, 2, 5, 6, 7, 10, 59, 60, 61, 63] } else { (0..=64).chain([99, 100, 101, 127, 128, 129, 255, 256, 257, 999, 1000, 1001]).collect() };
    let steps: Vec<i128> = if q { vec![1, 2, 3, 5, 7] } else { vec![1, 2, 3, 4, 5, 7, 8, 16, 60, 64] };
    let units: Vec<i128> = if q { vec![1, NS, 86_400 * NS] } else { vec![1, 1000, NS, 60 * NS, 86_400 * NS, 7 * 86_400 * NS] };
    let mut v = vec![];
    for ts in SCALES {
        let others: Vec<TimeScale> = match ts {
            TimeScale::UTC => vec![TimeScale::UTC, TimeScale::TAI, TimeScale::GPST],
            TimeScale::TAI => vec![TimeScale::TAI, TimeScale::UTC, TimeScale::GPST],
            TimeScale::GPST => vec![TimeScale::GPST, TimeScale::UTC, TimeScale::TAI, TimeScale::BDT],
            TimeScale::ET | TimeScale::TDB => vec![ts],
            _ => vec![ts, TimeScale::TAI],
        };
        for st in starts(ts) {
            for end_ts in &others {
                for u in &units {
                    for sp in spans.iter().copied() {
                        for stp in steps.iter().copied() {
                            for incl in [false, true] {
                                v.push(Series { ts, start: st, end_ts: *end_ts, span: sp * u, step: stp * u, incl });
                                if sp > 0 && *u > 1 {
                                    // spans one nanosecond short of / beyond a whole number of units
                                    v.push(Series { ts, start: st, end_ts: *end_ts, span: sp * u - 1, step: stp * u, incl });
                                    v.push(Series { ts, start: st, end_ts: *end_ts, span: sp * u + 1, step: stp * u, incl });
                                }
                            }
                        }
                    }
                }
            }
        }
    }
    v
}

/// long spans with long steps: k*step beyond one century and beyond the i64 nanosecond range (~292 years)
pub fn long_span_series() -> Vec<Series> {
    let mut v = vec![];
    let day = 86_400 * NS;
    // spans equal to, and just below, the largest duration (end - start itself does not saturate)
    for (ts, start) in [(TimeScale::TAI, 0i128), (TimeScale::GPST, -5 * NPC - 17), (TimeScale::UTC, DMIN + 3)] {
        for span in [DMAX, DMAX - 1, DMAX - 10_000 * NPC] {
            for step in [10_000 * NPC, 9_999 * NPC + 1, 32_768 * NPC, 32_767 * NPC + 5, 16_384 * NPC] {
                for incl in [false, true] {
                    if start + span <= DMAX {
                        v.push(Series { ts, start, end_ts: ts, span, step, incl });
                    }
                }
            }
        }
    }
    for ts in [TimeScale::TAI, TimeScale::UTC, TimeScale::GPST, TimeScale::TDB] {
        for start in [-3 * NPC + 5, -NPC - 1, 0, 12_345_678_901_234_567] {
            for step in [3652 * day, NPC - 1, NPC, 36_525 * day / 4 + 1, 400 * day + 7] {
                for k in [2i128, 3, 41, 120] {
                    for d in [-1i128, 0, 1] {
                        for incl in [false, true] {
                            v.push(Series { ts, start, end_ts: ts, span: k * step + d, step, incl });
                        }
                    }
                }
            }
        }
    }
    v
}

/// non-round steps with every item count 1..=kmax and spans 0..3 ns around a whole number of steps: the float quotient
/// span/step of such series rounds erratically once k*step exceeds 2^53 ns, so a handful of k values cannot stand for all
pub fn medium_series(kmax: i128) -> Vec<Series> {
    let mut v = vec![];
    let day = 86_400 * NS;
    for (ts, start) in [(TimeScale::TAI, 0i128), (TimeScale::GPST, 12_345_678_901_234_567)] {
        for step in [day + 1, 7 * day + 1, 3600 * NS + 1, day - 1, 400 * day + 7] {
            for k in 1..=kmax {
                for d in [-1i128, 0, 1, 2, 3] {
                    for incl in [false, true] {
                        v.push(Series { ts, start, end_ts: ts, span: k * step + d, step, incl });
                    }
                }
            }
        }
    }
    v
}

/// series of 2^53 .. 2^80 items: the item count leaves i64/u64/usize; only the first items are stepped
pub fn huge_series() -> Vec<Series> {
    let mut v = vec![];
    for (ts, start) in [(TimeScale::TAI, 0i128), (TimeScale::GPST, -NPC - 1), (TimeScale::UTC, -30_000 * NPC)] {
        for (span, step) in [(3 * NPC, 1i128), ((1i128 << 63) + 5, 1), ((1i128 << 64) + 3, 1), (10_000 * NPC, 250), (10_000 * NPC, 1000), (60_000 * NPC, 1), (6 * NPC, 1), ((1i128 << 53) * 7 + 1, 7), (2 * NPC, 1)] {
            for incl in [false, true] {
                if start + span < DMAX {
                    v.push(Series { ts, start, end_ts: ts, span, step, incl });
                }
            }
        }
    }
    v
}

pub fn long_series() -> Vec<Series> {
    vec![
        // 1 ns steps over 5 ms across a century boundary of the count: 5 000 001 items
        Series { ts: TimeScale::TAI, start: NPC - 2_500_000, end_ts: TimeScale::TAI, span: 5_000_000, step: 1, incl: true },
        // 1 s steps over 60 days across the 2016-12-31 leap second, start in UTC, end in UTC
        Series { ts: TimeScale::UTC, start: (3_692_217_600i128 - 30 * 86_400) * NS, end_ts: TimeScale::UTC, span: 60 * 86_400 * NS, step: NS, incl: false },
        // same across the leap second with the end given in TAI
        Series { ts: TimeScale::UTC, start: (3_692_217_600i128 - 86_400) * NS, end_ts: TimeScale::TAI, span: 2 * 86_400 * NS + 500_000_000, step: NS, incl: true },
        // 7 ns steps over 7 ms before the GPST zero
        Series { ts: TimeScale::GPST, start: -3_500_000, end_ts: TimeScale::GPST, span: 7_000_000, step: 7, incl: false },
    ]
}

pub fn run(rep: &mut Report) {
    let q = rep.quick();
    let leap = LeapTable::load().expect("leap").0;
    rep.rule = "every series of the product start (per scale: zero, before zero, century boundaries of the count, before/at/after three leap seconds) x span {0,1,2,5,6,7,10,59,60,61,63} units (thorough: every span 0..=64 and spans round 100, 128, 256, 1000 units; and +-1 ns) x step {1,2,3,5,7} units (thorough: ten steps up to 64 units) x unit {ns, s, day (+ us, min, week thorough)} x {inclusive, exclusive} x end given in the start's scale or another one; each real iterator is stepped with next() to exhaustion and once more, then driven again by collect(), by a for loop, by by_ref().take(j) + the rest and (series of up to 4096 items) by nth / skip / step_by / count / last / clone on a fresh and on a partially consumed iterator, and every yielded item is compared with start + k*step computed from the start. Medium series (five non-round steps x every item count 1..512 (thorough 2048) x spans -1..+3 ns around a whole number of steps). Huge series (2^53 .. 2^80 items, nanosecond to microsecond steps over centuries): the first six items and take(3).collect(). Long-span series (steps of 400 days .. one century, 2..120 steps, spans beyond the i64 nanosecond range) in both tiers; long series (millions of items) in the thorough tier. Non-trivial = span a whole multiple of the step, end in another scale, or start before the reference.".into();
    rep.assumptions = vec!["end - start is measured in the end's time scale (left operand, C04); series whose start has no count in the end's scale (inside an inserted UTC interval) are don't-cares".into()];
    let sp = space(q);
    rep.bound("series", sp.len() as u64);
    sweep(rep, "c15.series", sp.len() as u64, |i, out| j_series(&sp[i as usize], &leap, out));
    let lsp = long_span_series();
    rep.bound("long_span_series", lsp.len() as u64);
    sweep(rep, "c15.long_span", lsp.len() as u64, |i, out| j_series(&lsp[i as usize], &leap, out));
    let msp = medium_series(if q { 512 } else { 2048 });
    rep.bound("medium_series", msp.len() as u64);
    sweep(rep, "c15.medium", msp.len() as u64, |i, out| j_series(&msp[i as usize], &leap, out));
    let hs = huge_series();
    rep.bound("huge_series", hs.len() as u64);
    sweep(rep, "c15.huge", hs.len() as u64, |i, out| j_series(&hs[i as usize], &leap, out));
    // millions of items with steps whose sub-second part has odd low-order digits (k x step beyond 2^53 ns with a sub-second
    // part that an f64 cannot carry), fully iterated and every item judged
    {
        let x = 3_823_736_767 * NS;
        let mut ls: Vec<Series> = vec![];
        for (step, items) in [(999_999_999i128, if q { 9_100_000i128 } else { 40_000_000 }), (1_123_456_789, if q { 2_000_000 } else { 90_000_000 }), (86_400 * NS + 1, 300_000)] {
            ls.push(Series { ts: TimeScale::UTC, start: x, end_ts: TimeScale::UTC, span: step * items - 1, step, incl: false });
        }
        rep.bound("many_items_series", ls.len() as u64);
        sweep(rep, "c15.many_items", ls.len() as u64, |i, out| j_series(&ls[i as usize], &leap, out));
    }
    // interior scan (round 8): unremarkable starts (+-100 centuries), steps of every magnitude and item counts 0..3000 with the
    // span -2..+2 ns round a whole number of steps, same-scale and mixed-scale (UTC against the uniform scales)
    {
        let nsc: u64 = if q { 6_000 } else { 200_000 };
        rep.bound("interior_scan_series", nsc);
        let pairs = [(TimeScale::TAI, TimeScale::TAI), (TimeScale::UTC, TimeScale::UTC), (TimeScale::GPST, TimeScale::TT), (TimeScale::TAI, TimeScale::UTC), (TimeScale::UTC, TimeScale::GPST), (TimeScale::BDT, TimeScale::UTC), (TimeScale::TT, TimeScale::GST), (TimeScale::UTC, TimeScale::TAI)];
        let lp = &leap;
        sweep(rep, "c15.scan_series", nsc, |i, out| {
            let (ts, end_ts) = pairs[(i % 8) as usize];
            let step = crate::lattice::scan_magnitude(i, 1, 1, 62).abs().max(1);
            let items = crate::lattice::scan_point(i, 2, 0, 3000);
            let span = (step * items + [-2i128, -1, 0, 1, 2, step / 2][(i % 6) as usize]).max(0);
            // mixed pairs start within 1972-2030 every other time (leap seconds inside the span), else anywhere in +-100 centuries
            let start = if i % 2 == 0 { crate::lattice::scan_point(i, 3, 2_272_060_800 * NS, 4_102_444_800 * NS) } else { crate::lattice::scan_point(i, 4, -100 * NPC, 100 * NPC) };
            if span < 150 * NPC {
                j_series(&Series { ts, start, end_ts, span, step, incl: i % 3 == 0 }, lp, out)
            }
        });
    }
    // order independence: sixteen series (same-scale and mixed-scale, starts mirrored about the reference epoch), in
    // every order
    {
        let x = 7_305 * 86_400 * NS + 123_456_789;
        let mut os: Vec<Series> = vec![];
        for (ts, end_ts) in [(TimeScale::TAI, TimeScale::TAI), (TimeScale::UTC, TimeScale::TAI), (TimeScale::GPST, TimeScale::UTC), (TimeScale::TAI, TimeScale::GPST)] {
            for start in [x, -x] {
                for incl in [false, true] {
                    os.push(Series { ts, start, end_ts, span: 10 * NS, step: NS, incl });
                }
            }
        }
        let lp = &leap;
        crate::engine::order_pairs(rep, "c15.order", os.len() as u64, |i, out| j_series(&os[i as usize], lp, out));
    }
    if !q {
        let ls = long_series();
        rep.bound("long_series", ls.len() as u64);
        sweep(rep, "c15.long", ls.len() as u64, |i, out| j_series(&ls[i as usize], &leap, out));
    }
}

pub fn replay(check: &str, a: &[String], out: &mut Local) -> bool {
    if check != "c15.series" {
        return false;
    }
    let leap = LeapTable::load().expect("leap").0;
    let s = Series { ts: scale_from(&a[0]), start: p128(&a[1]), end_ts: scale_from(&a[2]), span: p128(&a[3]), step: p128(&a[4]), incl: a[5] == "true" };
    j_series(&s, &leap, out);
    true
}
