//! C10 Epoch text and serde round-trip: parse(format(e)) == e, to the nanosecond.
use super::c08::{cal_days, expected_count};
use super::common::*;
use crate::engine::sweep;
use crate::lattice;
use crate::oracle::civil::*;
use crate::oracle::dur::*;
use crate::oracle::leap::LeapTable;
use crate::oracle::text;
use crate::report::{guard, Local, Report};
use hifitime::efmt::consts::ISO8601;
use hifitime::efmt::Formatter;
use hifitime::{Epoch, TimeScale};
use std::str::FromStr;

pub const NANOS: [i128; 14] = [0, 1, 10, 100, 1000, 10_000, 100_000, 1_000_000, 10_000_000, 100_000_000, 123_456_789, 999_999_999, 10, 500_000_000];

/// all text forms of an epoch parse back to it
pub fn j_round_trip(days: i64, sec_of_day: i128, ns: i128, ts: TimeScale, leap: &LeapTable, out: &mut Local) {
    let tod = sec_of_day * NS_S + ns;
    let c = expected_count(days, tod, ts);
    let e = Epoch::from_duration(mk(c), ts);
    let args = vec![days.to_string(), sec_of_day.to_string(), ns.to_string(), scale_name(ts).to_string()];
    let r = guard(|| {
        let p = |x: Result<Epoch, hifitime::HifitimeError>| x.map(|e| (e.time_scale, alpha(e.duration))).map_err(|e| e.to_string());
        let shown = format!("{e}");
        let a = p(Epoch::from_str(&shown));
        let gs = e.to_gregorian_str(ts);
        let b = p(Epoch::from_gregorian_str(&gs));
        let iso = format!("{}", Formatter::new(e, ISO8601));
        let cc = p(Epoch::from_str(&iso));
        let json = serde_json::to_string(&e).map_err(|e| e.to_string());
        let d: Result<(TimeScale, i128), String> = json.clone().and_then(|j| serde_json::from_str::<Epoch>(&j).map(|e| (e.time_scale, alpha(e.duration))).map_err(|e| e.to_string()));
        // the same Deserialize impl driven through an owned Value, a reader and JSON text with an escape sequence
        let d = match (&json, d) {
            (Ok(j), Ok(first)) => {
                let esc = format!("\"\\u{:04x}{}", j.as_bytes()[1] as u32, &j[2..]);
                let q = |x: Result<Epoch, serde_json::Error>, how: &str| x.map(|e| (e.time_scale, alpha(e.duration))).map_err(|e| format!("{how}: {e}"));
                let others = [
                    q(serde_json::to_value(e).and_then(serde_json::from_value::<Epoch>), "to_value/from_value"),
                    q(serde_json::from_reader::<_, Epoch>(j.as_bytes()), "from_reader"),
                    q(serde_json::from_str::<Epoch>(&esc), "from_str(escaped)"),
                ];
                match others.into_iter().find(|o| o.as_ref().ok() != Some(&first)) {
                    Some(Err(bad)) => Err(bad),
                    Some(Ok(other)) => Err(format!("another deserializer path gives {other:?}")),
                    None => Ok(first),
                }
            }
            (_, d) => d,
        };
        let rfc = e.to_rfc3339();
        let f = p(Epoch::from_str(&rfc));
        let isof = e.to_isoformat();
        (shown, a, gs, b, iso, cc, json, d, rfc, f, isof)
    });
    let cls = format!("{},{}", if ns == 0 { "whole-second" } else { "fractional" }, scale_name(ts));
    match r {
        Ok((shown, a, gs, b, iso, cc, json, d, rfc, f, isof)) => {
            let want = Ok((ts, c));
            if a != want {
                out.viol("c10.display", format!("parse(display)!=e,{cls}"), args, format!("{c} from {shown:?}"), format!("{a:?}"));
            } else if b != want {
                out.viol("c10.gregorian_str", format!("parse(to_gregorian_str)!=e,{cls}"), args, format!("{c} from {gs:?}"), format!("{b:?}"));
            } else if cc != want {
                out.viol("c10.iso8601", format!("parse(ISO8601 formatter)!=e,{cls}"), args, format!("{c} from {iso:?}"), format!("{cc:?}"));
            } else if json.as_ref().ok() != Some(&format!("\"{shown}\"")) || d != want {
                out.viol("c10.serde", format!("json-round-trip,{cls}"), args, format!("\"{shown}\" -> {c}"), format!("{json:?} -> {d:?}"));
            } else {
                // RFC 3339: denotes the same instant in UTC
                if ts == TimeScale::UTC {
                    let wtext = format!("{}+00:00", text::render_dt(text::fields(c, TimeScale::UTC)));
                    if rfc != wtext {
                        out.viol("c10.rfc3339", format!("text-wrong,{cls}"), args, wtext, rfc);
                        return;
                    }
                    if f != Ok((TimeScale::UTC, c)) {
                        out.viol("c10.rfc3339", format!("parse(to_rfc3339)!=e,{cls}"), args, format!("{c} from {rfc:?}"), format!("{f:?}"));
                        return;
                    }
                } else if let Some(u) = crate::oracle::scales::to_tai(c, ts, leap).and_then(|t| leap.tai_to_utc(t)) {
                    if f != Ok((TimeScale::UTC, u)) {
                        out.viol("c10.rfc3339", format!("non-utc-epoch-rendered-as-other-instant,{cls}"), args, format!("UTC {u} from {rfc:?}"), format!("{f:?}"));
                        return;
                    }
                }
                if !shown.starts_with(&isof[..19]) {
                    out.viol("c10.isoformat", "prefix-differs".into(), args, shown, isof);
                    return;
                }
                let nt = ns != 0 || c < 0;
                out.ok(13, nt, (ts as u64) | ((ns == 0) as u64) << 4 | ((c < 0) as u64) << 5);
                if out.want_sample(nt) {
                    out.sample("c10.round_trip", args, shown, nt);
                }
            }
        }
        Err(p) => out.viol("c10.round_trip", format!("panic:{},{cls}", p.class()), args, "no panic".into(), format!("{} {}", p.loc, p.msg)),
    }
}

pub const SUFFIXES: [(&str, Option<TimeScale>); 14] = [
    ("", None),
    (" UTC", Some(TimeScale::UTC)),
    (" TAI", Some(TimeScale::TAI)),
    (" TT", Some(TimeScale::TT)),
    (" ET", Some(TimeScale::ET)),
    (" TDB", Some(TimeScale::TDB)),
    (" GPST", Some(TimeScale::GPST)),
    (" GST", Some(TimeScale::GST)),
    (" BDT", Some(TimeScale::BDT)),
    (" QZSST", Some(TimeScale::QZSST)),
    (" GPS", Some(TimeScale::GPST)),
    (" GAL", Some(TimeScale::GST)),
    (" BDS", Some(TimeScale::BDT)),
    (" QZSS", Some(TimeScale::QZSST)),
];

/// zone index: 0 = none, 1 = Z, 2.. = offsets -23:59 .. +23:59 in minutes (2879 values)
pub fn zone_text(z: usize) -> (String, i128, bool) {
    match z {
        0 => (String::new(), 0, false),
        1 => ("Z".into(), 0, true),
        _ => {
            let m = z as i128 - 2 - 1439;
            let (s, a) = if m < 0 { ('-', -m) } else { ('+', m) };
            (format!("{s}{:02}:{:02}", a / 60, a % 60), m * 60 * NS_S, false)
        }
    }
}

/// grammar product: separator x fraction digits x zone x suffix
pub fn j_grammar(days: i64, sec_of_day: i128, sep: usize, digits: usize, pattern: usize, zone: usize, suffix: usize, out: &mut Local) {
    let (y, m, d) = civil1900(days);
    let (h, mi, s) = (sec_of_day / 3600, (sec_of_day / 60) % 60, sec_of_day % 60);
    let full = if pattern == 0 { "123456789" } else { "000000001" };
    let frac = &full[..digits];
    let ns: i128 = if digits == 0 { 0 } else { frac.parse::<i128>().unwrap() * 10i128.pow((9 - digits) as u32) };
    let (ztext, zshift, is_z) = zone_text(zone);
    let (stext, sts) = SUFFIXES[suffix];
    let text = format!("{y:04}-{m:02}-{d:02}{}{h:02}:{mi:02}:{s:02}{}{frac}{ztext}{stext}", if sep == 0 { 'T' } else { ' ' }, if digits > 0 { "." } else { "" });
    let args = vec![days.to_string(), sec_of_day.to_string(), sep.to_string(), digits.to_string(), pattern.to_string(), zone.to_string(), suffix.to_string()];
    // 'Z' followed by a non-UTC suffix is contradictory text: statement silent
    if is_z && sts.is_some() && sts != Some(TimeScale::UTC) {
        out.dc(0);
        return;
    }
    let ts = sts.unwrap_or(TimeScale::UTC);
    let want = expected_count(days, sec_of_day * NS_S + ns, ts) - zshift;
    let r = guard(|| {
        let a = Epoch::from_str(&text).map(|e| (e.time_scale, alpha(e.duration))).map_err(|e| e.to_string());
        let b = Epoch::from_gregorian_str(&text).map(|e| (e.time_scale, alpha(e.duration))).map_err(|e| e.to_string());
        (a, b)
    });
    let shape = format!("{}{}{}", if zone == 0 { "no-zone" } else if is_z { "Z" } else { "offset" }, if suffix == 0 { ",no-suffix" } else if suffix >= 10 { ",rinex-alias" } else { ",suffix" }, if digits == 0 { ",no-fraction" } else { ",fraction" });
    match r {
        Ok((a, b)) => {
            if a != Ok((ts, want)) {
                let cls = match &a {
                    Err(_) => "rejected".to_string(),
                    Ok((t, g)) if *t != ts => "scale-wrong".to_string(),
                    Ok((_, g)) => format!("instant-wrong,diff={}", diffclass(*g, want)),
                };
                out.viol("c10.grammar", format!("{cls},{shape}"), args, format!("{} {want} from {text:?}", scale_name(ts)), format!("{a:?}"));
            } else if b != a {
                out.viol("c10.grammar", format!("from_gregorian_str-differs,{shape}"), args, format!("{a:?}"), format!("{b:?}"));
            } else {
                let nt = zone > 1 || digits > 0 || suffix > 1;
                out.ok(2, nt, (digits as u64) | (suffix as u64) << 4 | ((zone.min(2)) as u64) << 8 | (sep as u64) << 10);
                if out.want_sample(nt) {
                    out.sample("c10.grammar", args, format!("{text:?} -> {} {want}", scale_name(ts)), nt);
                }
            }
        }
        Err(p) => out.viol("c10.grammar", format!("panic:{},{shape}", p.class()), args, "no panic".into(), format!("{} {}", p.loc, p.msg)),
    }
}

const PREFIX: [&str; 3] = ["JD", "MJD", "SEC"];

/// numeric forms: "<JD|MJD|SEC> <value> <scale>"
pub fn j_numeric(pf: usize, x: f64, ts: TimeScale, out: &mut Local) {
    // pf = prefix + 3 * rendering: the same float written with its shortest digits, or with 12 / 20 / 25 / 40 decimals
    // (what "%.20f"-style printing of a float produces: digits beyond the 17th carry no information but are still text)
    let args = vec![pf.to_string(), ef64(x), scale_name(ts).to_string()];
    let (pf, render) = (pf % 3, pf / 3);
    let vtext = match render {
        0 => format!("{x}"),
        1 => format!("{x:.12}"),
        2 => format!("{x:.20}"),
        3 => format!("{x:.25}"),
        _ => format!("{x:.40}"),
    };
    let text = format!("{} {vtext} {}", PREFIX[pf], scale_name(ts));
    // the harness's own reading of the decimal text must be the same float (a fixed number of decimals may not be enough
    // for a small value: such renderings denote another number and are not judged)
    if vtext.parse::<f64>().unwrap().to_bits() != x.to_bits() {
        assert!(render != 0);
        out.dc(0);
        return;
    }
    if pf == 0 && (ts == TimeScale::ET || ts == TimeScale::TDB) {
        out.dc(0); // documented as approximate
        return;
    }
    let r = guard(|| Epoch::from_str(&text).map(|e| (e.time_scale, alpha(e.duration))));
    // denoted count in the scale itself: value relative to the scale's own zero date
    let (zd, zt) = crate::oracle::scales::gregorian_zero(ts);
    let zero_mjd_ns = (zd as i128 + 15_020) * NS_DAY + zt; // MJD of the scale's zero, in ns
    let (unit, anchor_ns): (i128, i128) = match pf {
        0 => (NS_DAY, zero_mjd_ns + 2_400_000 * NS_DAY + NS_DAY / 2),
        1 => (NS_DAY, zero_mjd_ns),
        _ => (NS_S, 0),
    };
    // exact denoted count: x * unit - anchor, with x the dyadic rational m * 2^e, in integer arithmetic; the tolerance
    // is "the resolution of a 64-bit float of that magnitude" (of x itself: not of its distance to the anchor)
    let (sg, m, e) = crate::oracle::ulp::decode(x);
    let prod: i128 = if m == 0 {
        0
    } else if e >= 0 {
        ((m as i128) << e.min(40)) * unit
    } else if -e >= 120 {
        0
    } else {
        // m * unit < 2^53 * 2^47: fits; shift in two steps to stay below 127 bits
        let num = m as i128 * unit;
        if -e >= 127 { 0 } else { num >> (-e) }
    };
    let exact_ns = sg * prod - anchor_ns;
    let approx = exact_ns as f64;
    let ulp_ns = crate::oracle::ulp::ulp_of(x.abs()) * unit as f64;
    // + 1 ns: the value is a float count of a unit, which C18 defines as truncated to the nanosecond
    let tol = 8.0 * ulp_ns + 1.0;
    match r {
        Ok(Ok((gts, g))) => {
            if gts != ts {
                out.viol("c10.numeric", format!("scale-wrong,{}", PREFIX[pf]), args, scale_name(ts).into(), scale_name(gts).into());
            } else if ((g - exact_ns).abs() as f64) <= tol {
                out.ok(1, x.fract() != 0.0 || x < 0.0, pf as u64 * 16 + ts as u64);
                if out.want_sample(x.fract() != 0.0) {
                    out.sample("c10.numeric", args, format!("{text:?} -> {} {g}", scale_name(ts)), x.fract() != 0.0);
                }
            } else {
                let off_days = (g as f64 - approx) / NS_DAY as f64;
                let cls = if (off_days.abs() - 0.5).abs() < 1e-6 { "off-by-half-a-day".to_string() } else if off_days.abs() > 1.0 { format!("off-by-{}-days", off_days.round()) } else { "off".to_string() };
                out.viol("c10.numeric", format!("instant-wrong,{},{},{cls}", PREFIX[pf], scale_name(ts)), args, format!("{approx:e} ns +- {tol:e} from {text:?}"), format!("{g}"));
            }
        }
        Ok(Err(e)) => {
            let msg = e.to_string();
            if (msg.contains("nsupported") || format!("{e:?}").contains("UnsupportedTimeSystem")) && (ts == TimeScale::ET || ts == TimeScale::TDB) {
                out.dc(1); // the statement speaks of "the uniform time scales and UTC": a refusal for ET/TDB is not judged
            } else if msg.contains("nsupported") || format!("{e:?}").contains("UnsupportedTimeSystem") {
                out.viol("c10.numeric", format!("refused-in-a-uniform-scale,{},{}", PREFIX[pf], scale_name(ts)), args, format!("Ok for {text:?}"), format!("Err({msg})"));
            } else {
                out.viol("c10.numeric", format!("rejected,{},{}", PREFIX[pf], scale_name(ts)), args, format!("Ok for {text:?}"), format!("Err({msg})"));
            }
        }
        Err(p) => out.viol("c10.numeric", format!("panic:{},{}", p.class(), PREFIX[pf]), args, "no panic".into(), format!("{} {} ({text:?})", p.loc, p.msg)),
    }
}

/// time scale names: Display and the RINEX form both parse back to the scale
pub fn j_scale_text(ts: TimeScale, out: &mut Local) {
    let r = guard(|| (format!("{ts}"), format!("{ts:x}"), TimeScale::from_str(&format!("{ts}")), TimeScale::from_str(&format!("{ts:x}")), TimeScale::from_str(&format!("  {ts} "))));
    let args = vec![scale_name(ts).to_string()];
    match r {
        Ok((a, b, ra, rb, rc)) => {
            let want_b = match ts {
                TimeScale::GPST => "GPS",
                TimeScale::GST => "GAL",
                TimeScale::BDT => "BDS",
                TimeScale::QZSST => "QZSS",
                _ => text::scale_str(ts),
            };
            if a == text::scale_str(ts) && b == want_b && ra == Ok(ts) && rb == Ok(ts) && rc == Ok(ts) {
                out.ok(5, true, ts as u64);
                out.sample("c10.scale_text", args, format!("{a} / {b}"), true);
            } else {
                out.viol("c10.scale_text", format!("wrong,{}", scale_name(ts)), args, format!("{} / {want_b}, both parse back", text::scale_str(ts)), format!("{a} / {b} -> {ra:?} {rb:?} {rc:?}"));
            }
        }
        Err(p) => out.viol("c10.scale_text", format!("panic:{}", p.class()), args, "no panic".into(), p.msg),
    }
}

pub fn grammar_instants() -> Vec<(i64, i128)> {
    let mut v = vec![];
    let dates = [(1, 1, 1), (1582, 10, 15), (1899, 12, 31), (1900, 1, 1), (1971, 12, 31), (1972, 1, 1), (1980, 1, 6), (1999, 8, 22), (2000, 1, 1), (2000, 2, 29), (2006, 1, 1), (2016, 12, 31), (2017, 1, 1), (2024, 2, 29), (2100, 3, 1), (9999, 12, 31)];
    for (y, m, d) in dates {
        for sod in [0i128, 1, 12 * 3600, 86_399] {
            v.push((days1900(y, m, d), sod));
        }
    }
    v
}

pub fn run(rep: &mut Report) {
    let q = rep.quick();
    let leap = LeapTable::load().expect("leap").0;
    let lo = days1900(1, 1, 1);
    let hi = days1900(9999, 12, 31);
    let days: Vec<i64> = cal_days(q).into_iter().filter(|d| *d >= lo && *d <= hi).collect();
    rep.bound("calendar_days", days.len() as u64);
    rep.rule = "round trips: calendar lattice restricted to years 0001-9999 x 9 scales, each day with a second-of-day and one of 14 nanosecond patterns cycled deterministically, through Display, to_gregorian_str, the ISO 8601 formatter, serde_json, to_rfc3339 and back through from_str / from_gregorian_str; grammar product: 64 instants x {T, space} x 0..9 fraction digits (2 digit patterns) x zone {none, Z, offsets} x 14 suffixes; numeric forms JD/MJD/SEC x 9 scales x the float lattice within +-10 000 years. Oracle: reference renderer + civil arithmetic; offsets denote local - hh:mm. Non-trivial = fractional second, offset, suffix, negative count.".into();
    rep.assumptions = vec!["'Z' followed by a non-UTC suffix is contradictory text (don't-care); explicit UnsupportedTimeSystem refusals are don't-cares; JD in ET/TDB excluded (statement)".into()];
    // order independence (depth-2 operation sequences on one thread): format + parse round trips of 18 dates x 3 scales in
    // every order (a parser or formatter that keeps scratch state between calls)
    {
        let od: Vec<i64> = [(1i64, 1i64, 1i64), (1, 3, 1), (4, 2, 29), (1400, 1, 1), (1582, 10, 15), (1899, 12, 31), (1900, 1, 1), (1900, 3, 1), (1972, 6, 30), (2000, 2, 29), (2016, 12, 31), (2017, 1, 1), (2024, 11, 30), (2400, 1, 1), (2400, 12, 31), (9999, 12, 31), (-400, 3, 1), (12_000, 7, 4)].iter().map(|(y, m, d)| days1900(*y, *m, *d)).chain([18_427i64, -18_427, 36_525, -36_525]).filter(|d| *d >= lo && *d <= hi).collect(); // (+ days mirrored about 1900-01-01)
        let os = [TimeScale::UTC, TimeScale::TAI, TimeScale::BDT];
        let no = od.len() as u64;
        let lp = &leap;
        crate::engine::order_pairs(rep, "c10.order", no * 3, |i, out| j_round_trip(od[(i % no) as usize], [0i128, 86_399, 45_296][(i % 3) as usize], [0i128, 999_999_999, 120_000_000][((i / 3) % 3) as usize], os[(i / no) as usize], lp, out));
    }
    let nd = days.len() as u64;
    for ts in SCALES {
        sweep(rep, &format!("c10.round_trip[{}]", scale_name(ts)), nd * 2, |i, out| {
            let di = (i / 2) as usize;
            let d = days[di];
            // two instants per day: a rolling second of day with a cycled nanosecond pattern, and a day boundary
            let (sod, ns) = if i % 2 == 0 { ((d.rem_euclid(86_400) as i128 * 7919) % 86_400, NANOS[(d.rem_euclid(14)) as usize]) } else { ([0i128, 86_399][(d.rem_euclid(2)) as usize], NANOS[((d / 2).rem_euclid(14)) as usize]) };
            if q && (d < days1900(1600, 1, 1) || d > days1900(2400, 12, 31)) && i % 2 == 0 {
                return;
            }
            j_round_trip(d, sod, ns, ts, &leap, out)
        });
    }
    sweep(rep, "c10.scale_text", 9, |i, out| j_scale_text(SCALES[i as usize], out));
    // grammar product
    let gi = grammar_instants();
    let zones: Vec<usize> = if q {
        let mut z = vec![0usize, 1];
        for m in (-1439i128..=1439).filter(|m| m % 15 == 0 || m.abs() == 1439 || m.abs() == 1 || m.abs() == 59 || m.abs() == 61) {
            z.push((m + 1439 + 2) as usize);
        }
        z
    } else {
        (0..2881).collect()
    };
    let dims = [gi.len() as u64, 2, 10, 2, zones.len() as u64, 14];
    let total: u64 = dims.iter().product();
    rep.bound("grammar_product", format!("{dims:?} = {total}"));
    sweep(rep, "c10.grammar", total, |i, out| {
        let mut r = i;
        let mut idx = [0u64; 6];
        for k in (0..6).rev() {
            idx[k] = r % dims[k];
            r /= dims[k];
        }
        if idx[2] == 0 && idx[3] == 1 {
            return; // zero digits: one pattern only
        }
        let (d, sod) = gi[idx[0] as usize];
        j_grammar(d, sod, idx[1] as usize, idx[2] as usize, idx[3] as usize, zones[idx[4] as usize], idx[5] as usize, out)
    });
    // numeric forms
    let fl = lattice::fl(!q);
    for pf in 0..3 {
        let (lo, hi) = match pf {
            0 => (2_415_020.5 - 3_652_500.0, 2_415_020.5 + 3_652_500.0),
            1 => (15_020.0 - 3_652_500.0, 15_020.0 + 3_652_500.0),
            _ => (-3.15e11, 3.15e11),
        };
        let mut xs: Vec<f64> = fl.iter().copied().filter(|x| *x >= lo && *x <= hi && (x.abs() >= 1e-6 || *x == 0.0)).collect();
        let anchors: Vec<f64> = match pf {
            0 => vec![2_415_020.5, 2_451_545.0, 2_440_587.5, 2_452_312.500372511, 2_444_244.5],
            1 => vec![15_020.0, 51_544.5, 40_587.0, 44_244.0, 53_736.0, 51_412.0],
            _ => vec![0.0, 17.2, 66_312_032.18493909, 3_155_716_800.0, 1e9],
        };
        for a in anchors {
            for o in [0.0, 0.25, 0.5, 1.0, 1e-3, 0.1] {
                xs.push(a + o);
                xs.push(a - o);
            }
        }
        xs.sort_by(|a, b| a.total_cmp(b));
        xs.dedup_by(|a, b| a.to_bits() == b.to_bits());
        let n = xs.len() as u64;
        sweep(rep, &format!("c10.numeric[{}]", PREFIX[pf]), n * 9 * 5, |i, out| j_numeric(pf + 3 * ((i / 9) % 5) as usize, xs[(i / 45) as usize], SCALES[(i % 9) as usize], out));
    }
}

pub fn replay(check: &str, a: &[String], out: &mut Local) -> bool {
    let leap = LeapTable::load().expect("leap").0;
    match check {
        "c10.round_trip" | "c10.display" | "c10.gregorian_str" | "c10.iso8601" | "c10.serde" | "c10.rfc3339" | "c10.isoformat" => j_round_trip(p64(&a[0]), p128(&a[1]), p128(&a[2]), scale_from(&a[3]), &leap, out),
        "c10.grammar" => j_grammar(p64(&a[0]), p128(&a[1]), a[2].parse().unwrap(), a[3].parse().unwrap(), a[4].parse().unwrap(), a[5].parse().unwrap(), a[6].parse().unwrap(), out),
        "c10.scale_text" => j_scale_text(scale_from(&a[0]), out),
        "c10.numeric" => j_numeric(a[0].parse().unwrap(), pf64(&a[1]), scale_from(&a[2]), out),
        _ => return false,
    }
    true
}
