//! C17 Julian Date, Modified Julian Date and UNIX views are exact affine re-expressions.
use super::common::*;
use crate::engine::sweep;
use crate::lattice;
use crate::oracle::civil::days1900;
use crate::oracle::dur::*;
use crate::oracle::leap::LeapTable;
use crate::oracle::scales;
use crate::oracle::ulp::within_ulps;
use crate::report::{guard, Local, Report};
use hifitime::{Duration, Epoch, TimeScale, Unit};

const ULPS: u64 = 8;
/// MJD of 1900-01-01 00:00 is 15 020 days; JD = MJD + 2 400 000.5 days
const MJD1900: i128 = 15_020 * NS_DAY;
const JD1900: i128 = 15_020 * NS_DAY + 2_400_000 * NS_DAY + NS_DAY / 2;
const J2000_S: i128 = 3_155_716_800 * NS_S;

fn unix_zero() -> i128 {
    days1900(1970, 1, 1) as i128 * NS_DAY
}

enum View {
    D(&'static str, Duration, i128),            // exact duration-valued accessor: got, want
    F(&'static str, f64, i128, i128),           // float accessor: got, numerator (ns), denominator (unit ns)
}

pub fn j_views(ts: TimeScale, c: i128, leap: &LeapTable, out: &mut Local) {
    let args = vec![scale_name(ts).to_string(), enc(c)];
    let e = Epoch::from_duration(mk(c), ts);
    // model counts of the same instant in TAI / UTC / TT (exact for the uniform scales and UTC)
    let (tai, utc, tt, _exact) = match scales::to_tai(c, ts, leap) {
        Some(t) => (t, leap.tai_to_utc(t), t + 32_184_000_000, true),
        None => {
            // ET/TDB source: take the real conversion to TAI as the reference instant (owned by C07)
            let t = alpha(e.to_time_scale(TimeScale::TAI).duration);
            (t, leap.tai_to_utc(t), t + 32_184_000_000, false)
        }
    };
    let r = guard(|| {
        let mut v: Vec<View> = vec![];
        let ud = Unit::Day;
        v.push(View::F("to_mjd_tai_days", e.to_mjd_tai_days(), tai + MJD1900, NS_DAY));
        v.push(View::F("to_mjd_tai_seconds", e.to_mjd_tai_seconds(), tai + MJD1900, NS_S));
        v.push(View::F("to_mjd_tai(Hour)", e.to_mjd_tai(Unit::Hour), tai + MJD1900, 3600 * NS_S));
        v.push(View::D("to_jde_tai_duration", e.to_jde_tai_duration(), tai + JD1900));
        v.push(View::F("to_jde_tai_days", e.to_jde_tai_days(), tai + JD1900, NS_DAY));
        v.push(View::F("to_jde_tai_seconds", e.to_jde_tai_seconds(), tai + JD1900, NS_S));
        v.push(View::F("to_jde_tai(Century)", e.to_jde_tai(Unit::Century), tai + JD1900, NPC));
        {
            const JN: [&str; 9] = ["to_jde_tai(ns)", "to_jde_tai(us)", "to_jde_tai(ms)", "to_jde_tai(s)", "to_jde_tai(min)", "to_jde_tai(h)", "to_jde_tai(day)", "to_jde_tai(week)", "to_jde_tai(century)"];
            const MT: [&str; 9] = ["to_mjd_tai(ns)", "to_mjd_tai(us)", "to_mjd_tai(ms)", "to_mjd_tai(s)", "to_mjd_tai(min)", "to_mjd_tai(h)", "to_mjd_tai(day)", "to_mjd_tai(week)", "to_mjd_tai(century)"];
            for (k, un) in UNITS.iter().enumerate() {
                v.push(View::F(JN[k], e.to_jde_tai(*un), tai + JD1900, crate::lattice::UNIT_NS[k]));
                v.push(View::F(MT[k], e.to_mjd_tai(*un), tai + MJD1900, crate::lattice::UNIT_NS[k]));
            }
        }
        v.push(View::D("to_tt_since_j2k", e.to_tt_since_j2k(), tt - J2000_S));
        v.push(View::F("to_tt_centuries_j2k", e.to_tt_centuries_j2k(), tt - J2000_S, NPC));
        v.push(View::D("to_jde_tt_duration", e.to_jde_tt_duration(), tt + JD1900));
        v.push(View::F("to_jde_tt_days", e.to_jde_tt_days(), tt + JD1900, NS_DAY));
        v.push(View::D("to_mjd_tt_duration", e.to_mjd_tt_duration(), tt + MJD1900));
        v.push(View::F("to_mjd_tt_days", e.to_mjd_tt_days(), tt + MJD1900, NS_DAY));
        v.push(View::F("to_tt_days", e.to_tt_days(), tt, NS_DAY));
        v.push(View::F("to_tt_seconds", e.to_tt_seconds(), tt, NS_S));
        if let Some(u) = utc {
            v.push(View::F("to_mjd_utc_days", e.to_mjd_utc_days(), u + MJD1900, NS_DAY));
            v.push(View::F("to_mjd_utc_seconds", e.to_mjd_utc_seconds(), u + MJD1900, NS_S));
            v.push(View::F("to_mjd_utc(Minute)", e.to_mjd_utc(Unit::Minute), u + MJD1900, 60 * NS_S));
            v.push(View::D("to_jde_utc_duration", e.to_jde_utc_duration(), u + JD1900));
            v.push(View::F("to_jde_utc_days", e.to_jde_utc_days(), u + JD1900, NS_DAY));
            v.push(View::F("to_jde_utc_seconds", e.to_jde_utc_seconds(), u + JD1900, NS_S));
            v.push(View::F("to_unix_seconds", e.to_unix_seconds(), u - unix_zero(), NS_S));
            v.push(View::F("to_unix_milliseconds", e.to_unix_milliseconds(), u - unix_zero(), 1_000_000));
            v.push(View::F("to_unix_days", e.to_unix_days(), u - unix_zero(), NS_DAY));
            v.push(View::F("to_unix(Hour)", e.to_unix(Unit::Hour), u - unix_zero(), 3600 * NS_S));
            // "any unit": the unit-parameterised views in every unit (the other units of the two TAI views follow below)
            const UN: [&str; 9] = ["to_unix(ns)", "to_unix(us)", "to_unix(ms)", "to_unix(s)", "to_unix(min)", "to_unix(h)", "to_unix(day)", "to_unix(week)", "to_unix(century)"];
            const MN: [&str; 9] = ["to_mjd_utc(ns)", "to_mjd_utc(us)", "to_mjd_utc(ms)", "to_mjd_utc(s)", "to_mjd_utc(min)", "to_mjd_utc(h)", "to_mjd_utc(day)", "to_mjd_utc(week)", "to_mjd_utc(century)"];
            for (k, un) in UNITS.iter().enumerate() {
                v.push(View::F(UN[k], e.to_unix(*un), u - unix_zero(), crate::lattice::UNIT_NS[k]));
                v.push(View::F(MN[k], e.to_mjd_utc(*un), u + MJD1900, crate::lattice::UNIT_NS[k]));
            }
            v.push(View::F("to_utc_seconds", e.to_utc_seconds(), u, NS_S));
            v.push(View::F("to_utc_days", e.to_utc_days(), u, NS_DAY));
        }
        // JDE in ET / TDB: exact relation to the (real) ET / TDB duration
        let et = alpha(e.to_et_duration());
        let tdb = alpha(e.to_tdb_duration());
        v.push(View::D("to_jde_et_duration", e.to_jde_et_duration(), et + J2000_S + JD1900));
        v.push(View::F("to_jde_et_days", e.to_jde_et_days(), et + J2000_S + JD1900, NS_DAY));
        v.push(View::F("to_jde_et(Second)", e.to_jde_et(Unit::Second), et + J2000_S + JD1900, NS_S));
        v.push(View::D("to_jde_tdb_duration", e.to_jde_tdb_duration(), tdb + J2000_S + JD1900));
        v.push(View::F("to_jde_tdb_days", e.to_jde_tdb_days(), tdb + J2000_S + JD1900, NS_DAY));
        v.push(View::F("to_et_seconds", e.to_et_seconds(), et, NS_S));
        v.push(View::F("to_tdb_seconds", e.to_tdb_seconds(), tdb, NS_S));
        v.push(View::F("to_et_days_since_j2000", e.to_et_days_since_j2000(), et, NS_DAY));
        v.push(View::F("to_tdb_centuries_since_j2000", e.to_tdb_centuries_since_j2000(), tdb, NPC));
        let _ = ud;
        v
    });
    match r {
        Ok(views) => {
            let n = views.len() as u64;
            let mut worst = 0f64;
            for v in views {
                match v {
                    View::D(name, got, want) => {
                        if alpha(got) != want {
                            out.viol("c17.views", format!("{name}-wrong,diff={}", diffclass(alpha(got), want)), args, describe(want), describe(alpha(got)));
                            return;
                        }
                    }
                    View::F(name, got, num, den) => {
                        let one_second = NS_S as f64 / den as f64;
                        let (ok, dist) = within_ulps(got, num, den, ULPS, one_second);
                        if !ok {
                            out.viol("c17.views", format!("{name}-off,{}", if dist > 1e6 { "gross" } else { "ulps" }), args, format!("{num}/{den} within {ULPS} ulp"), format!("{got:e} ({dist:.1} ulp)"));
                            return;
                        }
                        worst = worst.max(dist);
                    }
                }
            }
            out.metric_max("float_view_max_ulps", worst);
            // the {:p} form is documented as the UNIX view of the epoch: the text of to_unix_seconds() (judged above)
            match guard(|| (format!("{e:p}"), format!("{}", e.to_unix_seconds()))) {
                Ok((p, u)) if p == u => {}
                Ok((p, u)) => {
                    out.viol("c17.views", "pointer-format-differs-from-to_unix_seconds".into(), args, u, p);
                    return;
                }
                Err(p) => {
                    out.viol("c17.views", format!("panic:{},pointer-format", p.class()), args, "no panic".into(), format!("{} {}", p.loc, p.msg));
                    return;
                }
            }
            let nt = ts != TimeScale::TAI || c < 0;
            out.ok(n, nt, (ts as u64) | ((c < 0) as u64) << 4 | (utc.is_some() as u64) << 5);
            if out.want_sample(nt) {
                out.sample("c17.views", args, format!("{n} views agree; MJD(TAI) = {} ns", tai + MJD1900), nt);
            }
        }
        Err(p) => out.viol("c17.views", format!("panic:{}", p.class()), args, "no panic".into(), format!("{} {}", p.loc, p.msg)),
    }
}

const CTORS: [&str; 12] = ["from_mjd_tai", "from_mjd_utc", "from_jde_tai", "from_jde_utc", "from_unix_seconds", "from_unix_milliseconds", "from_mjd_in_time_scale", "from_jde_in_time_scale", "from_unix_duration", "from_jde_et", "from_jde_tdb", "scale-specific-wrappers"];

/// constructor -> same view returns the input to float precision
pub fn j_ctor(k: usize, x: f64, out: &mut Local) {
    let args = vec![k.to_string(), ef64(x)];
    let r = guard(|| -> (Epoch, f64, TimeScale) {
        match k {
            0 => {
                let e = Epoch::from_mjd_tai(x);
                (e, e.to_mjd_tai_days(), TimeScale::TAI)
            }
            1 => {
                let e = Epoch::from_mjd_utc(x);
                (e, e.to_mjd_utc_days(), TimeScale::UTC)
            }
            2 => {
                let e = Epoch::from_jde_tai(x);
                (e, e.to_jde_tai_days(), TimeScale::TAI)
            }
            3 => {
                let e = Epoch::from_jde_utc(x);
                (e, e.to_jde_utc_days(), TimeScale::UTC)
            }
            4 => {
                let e = Epoch::from_unix_seconds(x);
                (e, e.to_unix_seconds(), TimeScale::UTC)
            }
            5 => {
                let e = Epoch::from_unix_milliseconds(x);
                (e, e.to_unix_milliseconds(), TimeScale::UTC)
            }
            6 => {
                // MJD in the scale itself: days since the scale's own zero date + the MJD of that date
                let ts = SCALES[(x.to_bits() % 9) as usize];
                let (zd, zt) = scales::gregorian_zero(ts);
                let e = Epoch::from_mjd_in_time_scale(x, ts);
                // read back exactly (the harness's own f64 additions would round at the magnitude of the constants)
                (e, crate::oracle::ulp::ratio_to_f64(alpha(e.duration) + zd as i128 * NS_DAY + zt + MJD1900, NS_DAY), ts)
            }
            7 => {
                let ts = SCALES[(x.to_bits() % 9) as usize];
                let (zd, zt) = scales::gregorian_zero(ts);
                let e = Epoch::from_jde_in_time_scale(x, ts);
                (e, crate::oracle::ulp::ratio_to_f64(alpha(e.duration) + zd as i128 * NS_DAY + zt + JD1900, NS_DAY), ts)
            }
            8 => {
                let d = x * Unit::Second;
                let e = Epoch::from_unix_duration(d);
                (e, e.to_unix_seconds(), TimeScale::UTC)
            }
            9 => {
                // JD in ET: read back through the ET view (the label of the result is not pinned)
                let e = Epoch::from_jde_et(x);
                (e, e.to_jde_et_days(), e.time_scale)
            }
            10 => {
                let e = Epoch::from_jde_tdb(x);
                (e, e.to_jde_tdb_days(), e.time_scale)
            }
            _ => {
                // the GNSS-specific constructors are the generic one with the scale filled in: any difference reads
                // back as NaN (never within tolerance)
                let pairs = [
                    (Epoch::from_mjd_gpst(x), Epoch::from_mjd_in_time_scale(x, TimeScale::GPST)),
                    (Epoch::from_mjd_qzsst(x), Epoch::from_mjd_in_time_scale(x, TimeScale::QZSST)),
                    (Epoch::from_mjd_gst(x), Epoch::from_mjd_in_time_scale(x, TimeScale::GST)),
                    (Epoch::from_mjd_bdt(x), Epoch::from_mjd_in_time_scale(x, TimeScale::BDT)),
                    (Epoch::from_jde_gpst(x + 2_400_000.5), Epoch::from_jde_in_time_scale(x + 2_400_000.5, TimeScale::GPST)),
                    (Epoch::from_jde_qzsst(x + 2_400_000.5), Epoch::from_jde_in_time_scale(x + 2_400_000.5, TimeScale::QZSST)),
                    (Epoch::from_jde_gst(x + 2_400_000.5), Epoch::from_jde_in_time_scale(x + 2_400_000.5, TimeScale::GST)),
                    (Epoch::from_jde_bdt(x + 2_400_000.5), Epoch::from_jde_in_time_scale(x + 2_400_000.5, TimeScale::BDT)),
                ];
                let same = pairs.iter().all(|(a, b)| a.time_scale == b.time_scale && a.duration.to_parts() == b.duration.to_parts());
                (pairs[0].0, if same { x } else { f64::NAN }, TimeScale::GPST)
            }
        }
    });
    // tolerance: 8 ulp of the value (or of one second's worth) plus the 1 ns truncation of the constructor
    let unit_ns: i128 = match k {
        4 | 8 => NS_S,
        5 => 1_000_000,
        _ => NS_DAY,
    };
    let one_second = NS_S as f64 / unit_ns as f64;
    match r {
        Ok((e, back, want_ts)) => {
            if e.time_scale != want_ts {
                out.viol("c17.ctor", format!("{}-scale-wrong", CTORS[k]), args, scale_name(want_ts).into(), scale_name(e.time_scale).into());
                return;
            }
            // "float precision": of the value, or of one second's worth for values closer to zero than that. (An earlier
            // version also allowed the rounding of `value - anchor` in f64, on the belief that no double implementation
            // could avoid it; splitting the input into whole days and a fraction avoids it: DESIGN.md §9.)
            let u = crate::oracle::ulp::ulp_of(x.abs().max(one_second));
            // + 1 ns: the constructors convert a float count of a unit, which C18 defines as truncated to the nanosecond
            let tol = ULPS as f64 * u + 1.0 / unit_ns as f64;
            let diff = (back - x).abs();
            if diff <= tol {
                out.ok(2, x < 0.0 || x.fract() != 0.0, k as u64 * 4 + (x < 0.0) as u64 + 2 * (x.fract() != 0.0) as u64);
                out.metric_max("ctor_readback_max_ulps", diff / u);
                if out.want_sample(x.fract() != 0.0) {
                    out.sample("c17.ctor", args, format!("{}({x}) reads back {back}", CTORS[k]), x.fract() != 0.0);
                }
            } else {
                // offsets by a known constant deserve their own class
                let days = diff * unit_ns as f64 / NS_DAY as f64;
                let cls = if (days - 0.5).abs() < 1e-6 { "off-by-half-a-day" } else if (days - 15_020.0).abs() < 1e-3 { "off-by-15020-days" } else if diff * unit_ns as f64 / 1e9 < 100.0 { "off-by-seconds" } else { "gross" };
                out.viol("c17.ctor", format!("{}-readback,{cls}", CTORS[k]), args, format!("{x:e}"), format!("{back:e}"));
            }
        }
        Err(p) => out.viol("c17.ctor", format!("panic:{},{}", p.class(), CTORS[k]), args, "no panic".into(), format!("{} {}", p.loc, p.msg)),
    }
}

/// JD/MJD/UNIX inputs within +-10 000 years of 1900
pub fn ctor_inputs(k: usize, fl: &[f64]) -> Vec<f64> {
    let (lo, hi) = match k {
        0 | 1 | 6 | 11 => (15_020.0 - 3_652_500.0, 15_020.0 + 3_652_500.0),
        2 | 3 | 7 | 9 | 10 => (2_415_020.5 - 3_652_500.0, 2_415_020.5 + 3_652_500.0),
        4 | 8 => (-3.2e11, 3.2e11),
        _ => (-3.2e14, 3.2e14),
    };
    let mut v: Vec<f64> = fl.iter().copied().filter(|x| *x >= lo && *x <= hi).collect();
    // values round the view's own anchors
    let anchors: Vec<f64> = match k {
        0 | 1 | 6 | 11 => vec![15_020.0, 51_544.5, 40_587.0, 0.0, 60_000.0, 41_317.0, 57_754.0],
        2 | 3 | 7 | 9 | 10 => vec![2_415_020.5, 2_451_545.0, 2_440_587.5, 2_400_000.5, 0.0, 2_460_000.25, 2_451_636.25, 2_451_727.5, 2_451_818.75],
        4 | 8 => vec![0.0, 1.0e9, 1_483_228_800.0, 63_072_000.0, -2_208_988_800.0, 2.0e9],
        _ => vec![0.0, 1.0e12, 1_483_228_800_000.0],
    };
    for a in anchors {
        for o in [0.0, 0.25, 0.5, 0.75, 1.0, 1e-3, 1.0 / 86_400.0, 0.1, 1.0 / 3.0] {
            v.push(a + o);
            v.push(a - o);
            v.push(lattice::next_up(a + o));
        }
    }
    v.retain(|x| *x >= lo && *x <= hi);
    v.sort_by(|a, b| a.total_cmp(b));
    v.dedup_by(|a, b| a.to_bits() == b.to_bits());
    v
}

pub fn run(rep: &mut Report) {
    let deep = !rep.quick();
    let q = false;
    let leap = LeapTable::load().expect("leap").0;
    rep.bound("ulp_tolerance", ULPS);
    rep.rule = "epoch lattice EL(scale) (within +-10 500 years, windows at every scale's zero, J2000, UNIX zero, leap seconds) x 9 scales x ~35 accessors: duration-valued views exact against count + derived constant (MJD(1900-01-01) = 15 020 d, JD = MJD + 2 400 000.5 d, J2000 = 3 155 716 800 s, UNIX zero = 25 567 d, UTC via the leap table), float views within 8 ulp of the exact rational (of the value or of one second's worth); constructors from_mjd/jde/unix on the float lattice within the span, read back through the same view. Non-trivial = non-TAI scale or negative count.".into();
    rep.assumptions = vec!["views of ET/TDB source epochs take the real conversion to TAI as the instant (owned by C07); JDE in ET/TDB is checked as an exact affine function of the real ET/TDB duration".into()];
    for ts in SCALES {
        let mut el = lattice::el(ts, if deep { 131_072 } else { 8_192 }, Some((-2, 40)));
        // every view's own origin is a boundary of that view (the float is small there, so a few ulps are a tight bound):
        // JD 0, MJD 0, UNIX 0, J2000 and 1900, each with offsets of every magnitude and with sub-unit parts
        let own = scales::zero_tai(ts).unwrap_or(if ts == TimeScale::UTC { 0 } else { J2000_S - 32_184_000_000 });
        for z in [-JD1900, -MJD1900, unix_zero(), J2000_S, J2000_S - 32_184_000_000, 0] {
            for mag in [0i128, 1, 999, NS_S, NS_S + 1, 21_600 * NS_S + 1000, NS_DAY - 1, 1234 * NS_DAY + 48_988_800_000_123, 99_999 * NS_DAY + 7, 1_000_003 * NS_DAY + 600_000_000_001] {
                for sg in [-1i128, 1] {
                    el.push(z + sg * mag - own);
                }
            }
        }
        el.sort();
        el.dedup();
        sweep(rep, &format!("c17.views[{}]", scale_name(ts)), el.len() as u64, |i, out| j_views(ts, el[i as usize], &leap, out));
    }
    // interior scan (round 8): evenly spread, unremarkable counts within +-100 centuries x 9 scales through every view
    {
        let nsc: u64 = if deep { 4_000_000 } else { 300_000 };
        rep.bound("interior_scan_points", nsc);
        let lp = &leap;
        sweep(rep, "c17.scan_views", 9 * nsc, |i, out| j_views(SCALES[(i % 9) as usize], if (i / 9) % 2 == 0 { lattice::scan_point(i / 18, 0, -100 * NPC, 100 * NPC) } else { lattice::scan_magnitude(i / 18, 1, 0, 68) }, lp, out));
    }
    // order independence: the views of six instants (two of them a leap-second interval apart) in four scales, in every order
    {
        let oi: [i128; 6] = [3_697_315_237 * NS_S, 3_692_217_610 * NS_S, 0, -86_400 * NS_S * 7305 - 5, 86_400 * NS_S * 7305 + 5, 2_000_000_000 * NS_S];
        let os = [TimeScale::TAI, TimeScale::UTC, TimeScale::GPST, TimeScale::TT];
        let lp = &leap;
        crate::engine::order_pairs(rep, "c17.order", 24, |i, out| j_views(os[(i / 6) as usize], oi[(i % 6) as usize], lp, out));
    }
    let fl = lattice::fl(!q);
    for k in 0..12 {
        let xs = ctor_inputs(k, &fl);
        sweep(rep, &format!("c17.ctor[{}]", CTORS[k]), xs.len() as u64, |i, out| j_ctor(k, xs[i as usize], out));
    }
    // interior scan (round 8): evenly spread, unremarkable constructor inputs over each constructor's range (whole and
    // fractional values alternate for the UNIX constructors, whose inputs are usually whole seconds / milliseconds)
    {
        let nsc: u64 = if deep { 3_000_000 } else { 250_000 };
        rep.bound("interior_scan_ctor_inputs", nsc);
        sweep(rep, "c17.scan_ctor", 12 * nsc, |i, out| {
            let k = (i % 12) as usize;
            let j = i / 12;
            let (lo, hi): (f64, f64) = match k {
                0 | 1 | 6 | 11 => (15_020.0 - 3_652_000.0, 15_020.0 + 3_652_000.0),
                2 | 3 | 7 | 9 | 10 => (2_415_020.5 - 3_652_000.0, 2_415_020.5 + 3_652_000.0),
                4 | 8 => (-3.1e11, 3.1e11),
                _ => (-3.1e14, 3.1e14),
            };
            let f = lattice::scan_point(j, k % 6, 0, (1i128 << 53) - 1) as f64 / (1u64 << 53) as f64;
            let mut x = lo + f * (hi - lo);
            // one input in four sits near today (MJD 40 000 - 80 000 and the matching JD / UNIX ranges): finer float resolution
            if j % 4 == 1 {
                x = match k {
                    0 | 1 | 6 | 11 => 40_000.0 + f * 40_000.0,
                    2 | 3 | 7 | 9 | 10 => 2_440_000.5 + f * 40_000.0,
                    4 | 8 => f * 1.0e10,
                    _ => f * 1.0e13,
                };
            }
            if matches!(k, 4 | 5 | 8) && j % 2 == 0 {
                x = x.round();
            }
            j_ctor(k, x, out)
        });
    }
}

pub fn replay(check: &str, a: &[String], out: &mut Local) -> bool {
    match check {
        "c17.views" => j_views(scale_from(&a[0]), p128(&a[1]), &LeapTable::load().expect("leap").0, out),
        "c17.ctor" => j_ctor(a[0].parse().unwrap(), pf64(&a[1]), out),
        _ => return false,
    }
    true
}
