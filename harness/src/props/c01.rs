//! C01 Duration arithmetic is exact to the nanosecond and saturates at the bounds.
use super::common::*;
use crate::engine::{bfs, sweep, SeqSpec};
use crate::lattice;
use crate::oracle::dur::*;
use crate::report::{guard, Local, Report};
use hifitime::{Duration, Unit};

const BIN: [&str; 4] = ["add", "sub", "add_assign", "sub_assign"];

fn nontrivial_bin(a: i128, b: i128, t: i128) -> bool {
    let carry = a.div_euclid(NPC) + b.div_euclid(NPC) != t.div_euclid(NPC) && a.div_euclid(NPC) - b.div_euclid(NPC) != t.div_euclid(NPC);
    let edge = |v: i128| {
        let c = v.div_euclid(NPC);
        c == -32768 || c == -1 || c == 32767 || c == 32768
    };
    carry || (a < 0) != (b < 0) || !(DMIN..=DMAX).contains(&t) || edge(a) || edge(b)
}

/// one binary operation on the real code against the i128 model
pub fn judge_bin(op: usize, a: i128, b: i128, out: &mut Local) -> Option<Duration> {
    let da = mk(a);
    let db = mk(b);
    let t = if op % 2 == 0 { a + b } else { a - b };
    let want = clamp(t);
    let got = guard(|| match op {
        0 => da + db,
        1 => da - db,
        2 => {
            let mut x = da;
            x += db;
            x
        }
        _ => {
            let mut x = da;
            x -= db;
            x
        }
    });
    let nt = nontrivial_bin(a, b, t);
    let check = format!("c01.{}", BIN[op]);
    match &got {
        Ok(d) if canonical(*d) && alpha(*d) == want => {
            let outcome = (want == DMIN) as u64 | ((want == DMAX) as u64) << 1 | ((a < 0) as u64) << 2 | ((b < 0) as u64) << 3 | ((want < 0) as u64) << 4 | (nt as u64) << 5;
            out.ok(1, nt, outcome);
            if out.want_sample(nt) {
                out.sample(&check, vec![enc(a), enc(b)], format!("{} {} {} = {}", describe(a), BIN[op], describe(b), describe(want)), nt);
            }
            Some(*d)
        }
        _ => {
            let (cls, obs) = wrong_dur(&got, want);
            out.viol(&check, format!("{cls},a:{},b:{}", cclass(a), cclass(b)), vec![enc(a), enc(b)], describe(want), obs);
            None
        }
    }
}

pub fn judge_un(op: usize, a: i128, out: &mut Local) -> Option<Duration> {
    let da = mk(a);
    let (name, want) = if op == 0 { ("neg", clamp(-a)) } else { ("abs", clamp(a.abs())) };
    let got = guard(|| if op == 0 { -da } else { da.abs() });
    let check = format!("c01.{name}");
    let nt = a < 0 || a.rem_euclid(NPC) == 0 || a.div_euclid(NPC) >= 32767;
    match &got {
        Ok(d) if canonical(*d) && alpha(*d) == want => {
            out.ok(1, nt, (want == DMIN) as u64 | ((want == DMAX) as u64) << 1 | ((a < 0) as u64) << 2 | ((a.rem_euclid(NPC) == 0) as u64) << 3);
            if out.want_sample(nt) {
                out.sample(&check, vec![enc(a)], format!("{name} {} = {}", describe(a), describe(want)), nt);
            }
            Some(*d)
        }
        _ => {
            let (cls, obs) = wrong_dur(&got, want);
            out.viol(&check, format!("{cls},a:{}", cclass(a)), vec![enc(a)], describe(want), obs);
            None
        }
    }
}

// (* and / are left to c01.mul_i64 / div_i64, which carry the defect model of the known finding D1)
const RAW_OPS: [&str; 12] = ["id", "neg", "abs", "add_zero", "sub_1ns", "add_1ns", "sub_century", "add_neg_century", "add_assign_zero", "neg_neg", "zero_sub", "sub_assign_1ns"];
/// an operand handed to the constructor in a raw form (any i16 century count with any u64 nanosecond part, the
/// statement's quantifier), then one operation; the model value of the operand is clamp(c * NPC + n)
pub fn judge_raw(op: usize, c: i16, n: u64, out: &mut Local) {
    let v = clamp(c as i128 * NPC + n as i128);
    let one = mk(1);
    let cent = mk(NPC);
    let want = clamp(match op {
        0 | 3 | 8 | 9 => v,
        1 | 10 => -v,
        2 => v.abs(),
        4 | 11 => v - 1,
        5 => v + 1,
        _ => v - NPC,
    });
    let got = guard(|| {
        let x = Duration::from_parts(c, n);
        match op {
            0 => x,
            1 => -x,
            2 => x.abs(),
            3 => x + Duration::ZERO,
            4 => x - one,
            5 => x + one,
            6 => x - cent,
            7 => x + (-cent),
            8 => {
                let mut y = x;
                y += Duration::ZERO;
                y
            }
            9 => -(-x),
            10 => Duration::ZERO - x,
            _ => {
                let mut y = x;
                y -= one;
                y
            }
        }
    });
    let nt = n as i128 >= NPC;
    match &got {
        Ok(d) if canonical(*d) && alpha(*d) == want => out.ok(1, nt, op as u64 | ((want == DMAX) as u64) << 4 | ((want == DMIN) as u64) << 5 | (nt as u64) << 6),
        _ => {
            let (cls, obs) = wrong_dur(&got, want);
            out.viol("c01.raw_operand", format!("{},{cls},centuries-in-ns-field={}", RAW_OPS[op], (n as i128 / NPC).min(2)), vec![op.to_string(), c.to_string(), n.to_string()], describe(want), obs);
        }
    }
}

const SCALE_OPS: [&str; 3] = ["mul_i64", "i64_mul", "div_i64"];
pub fn judge_scale(op: usize, a: i128, k: i64, out: &mut Local) -> Option<Duration> {
    if op == 2 && k == 0 {
        out.dc(0);
        return None;
    }
    let da = mk(a);
    let t = if op == 2 { a / k as i128 } else { a.saturating_mul(k as i128) };
    let want = clamp(t);
    let got = guard(|| match op {
        0 => da * k,
        1 => k * da,
        _ => da / k,
    });
    let check = format!("c01.{}", SCALE_OPS[op]);
    let nt = a < -NPC || !(DMIN..=DMAX).contains(&t) || k < 0 || (op == 2 && a % k as i128 != 0);
    match &got {
        Ok(d) if canonical(*d) && alpha(*d) == want => {
            out.ok(1, nt, (want == DMIN) as u64 | ((want == DMAX) as u64) << 1 | ((a < 0) as u64) << 2 | ((k < 0) as u64) << 3 | ((a < -NPC) as u64) << 4);
            if out.want_sample(nt) {
                out.sample(&check, vec![enc(a), k.to_string()], format!("{} {} {k} = {}", describe(a), SCALE_OPS[op], describe(want)), nt);
            }
            Some(*d)
        }
        _ => {
            // defect model D1: the pinned total_nanoseconds() reads c*NPC - n for c <= -2
            if let Ok(d) = &got {
                // (only the duration operand: since the repair of D64 the factor / divisor is read exactly)
                if in_d1_domain(da) && canonical(*d) {
                    let t1 = d1_total(da);
                    let k1 = k as i128;
                    let w1 = clamp(if op == 2 { t1 / k1 } else { t1.saturating_mul(k1) });
                    if alpha(*d) == w1 {
                        out.viol(&check, "defect:D1".into(), vec![enc(a), k.to_string()], describe(want), format!("{} {}", show(*d), describe(alpha(*d))));
                        return None;
                    }
                }
            }
            let (cls, obs) = wrong_dur(&got, want);
            let kc = if k == i64::MIN { "k=i64::MIN" } else if k < 0 { "k<0" } else { "k>=0" };
            out.viol(&check, format!("{cls},a:{},{kc}", cclass(a)), vec![enc(a), k.to_string()], describe(want), obs);
            None
        }
    }
}

const UNIT_OPS: [&str; 4] = ["add_unit", "sub_unit", "add_assign_unit", "sub_assign_unit"];
pub fn judge_unit(op: usize, a: i128, u: Unit, out: &mut Local) {
    let da = mk(a);
    let t = if op % 2 == 0 { a + unit_ns(u) } else { a - unit_ns(u) };
    let want = clamp(t);
    let got = guard(|| match op {
        0 => da + u,
        1 => da - u,
        2 => {
            let mut x = da;
            x += u;
            x
        }
        _ => {
            let mut x = da;
            x -= u;
            x
        }
    });
    let check = format!("c01.{}", UNIT_OPS[op]);
    let nt = nontrivial_bin(a, if op % 2 == 0 { unit_ns(u) } else { -unit_ns(u) }, t);
    match &got {
        Ok(d) if canonical(*d) && alpha(*d) == want => {
            out.ok(1, nt, (want == DMIN) as u64 | ((want == DMAX) as u64) << 1 | ((a < 0) as u64) << 2 | (nt as u64) << 3);
            if out.want_sample(nt) {
                out.sample(&check, vec![enc(a), unit_name(u).into()], format!("{} {} 1 {} = {}", describe(a), UNIT_OPS[op], unit_name(u), describe(want)), nt);
            }
        }
        _ => {
            let (cls, obs) = wrong_dur(&got, want);
            out.viol(&check, format!("{cls},a:{}", cclass(a)), vec![enc(a), unit_name(u).into()], describe(want), obs);
        }
    }
}

/// Unit + Unit and Unit - Unit (both operands units)
pub fn judge_unit_unit(op: usize, u: Unit, w: Unit, out: &mut Local) {
    let t = if op == 0 { unit_ns(u) + unit_ns(w) } else { unit_ns(u) - unit_ns(w) };
    let got = guard(|| if op == 0 { u + w } else { u - w });
    let check = if op == 0 { "c01.unit_add_unit" } else { "c01.unit_sub_unit" };
    let args = vec![unit_name(u).to_string(), unit_name(w).to_string()];
    match &got {
        Ok(d) if canonical(*d) && alpha(*d) == t => {
            out.ok(1, t < 0, (t < 0) as u64 | ((t == 0) as u64) << 1);
            if out.want_sample(t < 0) {
                out.sample(check, args, format!("-> {}", describe(t)), t < 0);
            }
        }
        _ => {
            let (cls, obs) = wrong_dur(&got, t);
            out.viol(check, cls, args, describe(t), obs);
        }
    }
}

// ---------------------------------------------------------------------------------------------
// Mode A: operation sequences from non-initial states

#[derive(Clone, Debug)]
enum Act {
    Add(i128),
    Sub(i128),
    Neg,
    Abs,
    Mul(i64),
    Div(i64),
    AddU(Unit),
    SubU(Unit),
}

struct Seq {
    acts: Vec<Act>,
    inits: Vec<i128>,
    depth: usize,
}

fn seq_alphabet() -> Vec<Act> {
    let mut v = vec![];
    let a: Vec<i128> = vec![1, NPC - 1, NPC, NPC + 1, 1i128 << 63, 16384 * NPC, DMAX, NS_S, 2 * NPC + 5, 32767 * NPC + 7];
    for x in &a {
        v.push(Act::Add(*x));
        v.push(Act::Add(clamp(-*x)));
        v.push(Act::Sub(*x));
        v.push(Act::Sub(clamp(-*x)));
    }
    v.push(Act::Neg);
    v.push(Act::Abs);
    for k in [-3i64, -1, 2, 7, 1_000_000_000] {
        v.push(Act::Mul(k));
        v.push(Act::Div(k));
    }
    v.push(Act::AddU(Unit::Century));
    v.push(Act::SubU(Unit::Century));
    v.push(Act::AddU(Unit::Nanosecond));
    v.push(Act::SubU(Unit::Day));
    v
}

impl SeqSpec for Seq {
    /// the implementation value (parts) — the model value is alpha(parts) by the step invariant,
    /// so the pair (impl, model) is determined by the parts alone
    type S = (i16, u64);
    fn inits(&self) -> Vec<Self::S> {
        self.inits.iter().map(|v| mk(*v).to_parts()).collect()
    }
    fn n_actions(&self) -> usize {
        self.acts.len()
    }
    fn action_name(&self, a: usize) -> String {
        format!("{:?}", self.acts[a])
    }
    fn state_name(&self, s: &Self::S) -> String {
        format!("{s:?}")
    }
    fn max_depth(&self) -> usize {
        self.depth
    }
    fn step(&self, s: &Self::S, a: usize, path: &[u16], out: &mut Local) -> Option<Self::S> {
        let cur = s.0 as i128 * NPC + s.1 as i128;
        let before = out.sig_counts.values().sum::<u64>();
        let r = match &self.acts[a] {
            Act::Add(x) => judge_bin(0, cur, *x, out),
            Act::Sub(x) => judge_bin(1, cur, *x, out),
            Act::Neg => judge_un(0, cur, out),
            Act::Abs => judge_un(1, cur, out),
            Act::Mul(k) => judge_scale(0, cur, *k, out),
            Act::Div(k) => judge_scale(2, cur, *k, out),
            Act::AddU(u) => judge_bin(0, cur, unit_ns(*u), out),
            Act::SubU(u) => judge_bin(1, cur, unit_ns(*u), out),
        };
        if out.sig_counts.values().sum::<u64>() != before {
            // annotate the violation just recorded with the operation sequence that reached the state
            if let Some(v) = out.viols.last_mut() {
                if !v.observed.contains("via path") {
                    v.observed = format!("{} via path init#{} then {:?}", v.observed, path[0], path[1..].iter().map(|i| self.action_name(*i as usize)).collect::<Vec<_>>());
                }
            }
        }
        // successor = implementation value (model value equals alpha of it when the step was judged OK);
        // a wrong step prunes (co-simulation past a wrong value is meaningless)
        r.map(|d| d.to_parts())
    }
}

pub fn run(rep: &mut Report) {
    let deep = !rep.quick();
    let q = false; // the former thorough parameters are cheap enough for the quick tier
    let dl = lattice::dl(if deep { 1024 } else { 64 }, !q);
    let dl_pairs = if q { lattice::dl(4, false) } else { dl.clone() };
    let kl = lattice::kl();
    rep.bound("DL_size", dl.len() as u64);
    rep.bound("DL_pair_axis_size", dl_pairs.len() as u64);
    rep.bound("KL_size", kl.len() as u64);
    rep.bound("dense_window_ns", if deep { 256 } else { 64 });
    rep.rule = "Mode B: all ordered pairs of the duration lattice DL (century anchors x offsets, dense windows round 0, +-1..3 centuries, MIN, MAX, i64 limits) under + - += -=; DL x KL under *, / (both operand orders); DL x 9 units; neg/abs on DL. Mode A: stateright BFS over operation sequences from 6 initial states. Oracle: i128 count + clamp. Non-trivial = carry/borrow across a century boundary, operands of different sign, true result outside [MIN,MAX], or an operand in century -32768/-1/32767 (for * and /: operand below -1 century, negative factor, saturation or inexact division).".into();
    rep.assumptions = vec![
        "Duration::from_parts(c, n) with n < one century and Duration::to_parts() are exact (cross-checked by C02)".into(),
        "results outside the lattice points are covered only by the small-scope argument of DESIGN.md §8".into(),
    ];
    let n = dl_pairs.len() as u64;
    for op in 0..4 {
        let dlp = &dl_pairs;
        sweep(rep, &format!("c01.{}", BIN[op]), n * n, |i, out| {
            judge_bin(op, dlp[(i / n) as usize], dlp[(i % n) as usize], out);
        });
    }
    for op in 0..2 {
        let d = &dl;
        sweep(rep, if op == 0 { "c01.neg" } else { "c01.abs" }, d.len() as u64, |i, out| {
            judge_un(op, d[i as usize], out);
        });
    }
    let nk = kl.len() as u64;
    for op in 0..3 {
        let (d, k) = (&dl, &kl);
        sweep(rep, &format!("c01.{}", SCALE_OPS[op]), d.len() as u64 * nk, |i, out| {
            judge_scale(op, d[(i / nk) as usize], k[(i % nk) as usize], out);
        });
    }
    for op in 0..4 {
        let d = &dl;
        sweep(rep, &format!("c01.{}", UNIT_OPS[op]), d.len() as u64 * 9, |i, out| {
            judge_unit(op, d[(i / 9) as usize], UNITS[(i % 9) as usize], out);
        });
    }
    sweep(rep, "c01.unit_op_unit", 2 * 81, |i, out| judge_unit_unit((i / 81) as usize, UNITS[((i / 9) % 9) as usize], UNITS[(i % 9) as usize], out));
    // operands in the raw forms the constructor accepts: every century anchor x a nanosecond part of 0..5 whole centuries (and
    // the top of the u64 range) +- a few offsets, then one operation
    {
        let mut raw_n: Vec<u64> = vec![];
        for k in 0..=5u64 {
            for o in [-3i64, -2, -1, 0, 1, 2, 3, 1_000_000_000, -1_000_000_000, (NPC / 2) as i64] {
                raw_n.push((k * NPC as u64).wrapping_add(o as u64));
            }
        }
        raw_n.extend([u64::MAX - 1, u64::MAX, 1 << 63, (1 << 63) - 1]);
        raw_n.sort();
        raw_n.dedup();
        let raw_c: Vec<i16> = lattice::CENTURY_ANCHORS.iter().filter(|c| **c >= -32768 && **c <= 32767).map(|c| *c as i16).collect();
        let (nn, nc) = (raw_n.len() as u64, raw_c.len() as u64);
        rep.bound("raw_operands", nn * nc);
        sweep(rep, "c01.raw_operand", 12 * nn * nc, |i, out| judge_raw((i % 12) as usize, raw_c[((i / 12) / nn) as usize], raw_n[((i / 12) % nn) as usize], out));
    }
    // interior scan (round 8): evenly spread, unremarkable operands over the whole range, +-10 000 years and every binade
    {
        let ns: u64 = if deep { 40_000_000 } else { 3_000_000 };
        rep.bound("interior_scan_points", ns);
        sweep(rep, "c01.scan_bin", 4 * ns, |i, out| {
            judge_bin((i % 4) as usize, scan_dur(i / 4, 0), scan_dur(i / 4 + i / 12, 1), out); // (second index: every kind of operand meets every kind)
        });
        sweep(rep, "c01.scan_un", 2 * ns, |i, out| {
            judge_un((i % 2) as usize, scan_dur(i / 2, 2), out);
        });
        sweep(rep, "c01.scan_scale", 3 * ns, |i, out| {
            judge_scale((i % 3) as usize, scan_dur(i / 3, 3), scan_i64(i / 3 + i / 9, 4), out);
        });
        // one century, one day and 1 ns times / divided into every i16 count: results on every whole century of the range
        sweep(rep, "c01.every_century", 65_537 * 6, |i, out| {
            let k = (i / 6) as i64 - 32_768;
            match i % 6 {
                0 => judge_scale(0, NPC, k, out),
                1 => judge_scale(1, NPC, k, out),
                2 => judge_scale(0, NS_DAY, k * 36_525, out),
                3 => judge_scale(2, (k as i128 * NPC).clamp(DMIN, DMAX), 1, out),
                4 => judge_bin(0, (k as i128 * NPC - 1).clamp(DMIN, DMAX), 1, out),
                _ => judge_bin(1, (k as i128 * NPC).clamp(DMIN, DMAX), -NPC, out),
            };
        });
        // one unit short of (and past) every century anchor: the carry of the Unit operand forms lands exactly on a century
        sweep(rep, "c01.unit_to_century", 4 * 9 * 23 * 5, |i, out| {
            let u = UNITS[((i / 4) % 9) as usize];
            let c = lattice::CENTURY_ANCHORS[((i / 36) % 23) as usize];
            let a = c * NPC + [-1i128, 1, -2, 2, 0][(i / (36 * 23)) as usize] * lattice::UNIT_NS[((i / 4) % 9) as usize];
            if (DMIN..=DMAX).contains(&a) {
                judge_unit((i % 4) as usize, a, u, out)
            }
        });
        sweep(rep, "c01.scan_unit", 4 * 9 * (ns / 8), |i, out| judge_unit((i % 4) as usize, scan_dur(i / 36, 5), UNITS[((i / 4) % 9) as usize], out));
    }
    let depth = if deep { 5 } else { 4 };
    rep.bound("seq_depth", depth as u64);
    let spec = Seq { acts: seq_alphabet(), inits: vec![0, DMIN, DMAX, -1, -NPC, -2 * NPC + NPC - 1], depth };
    rep.bound("seq_alphabet", spec.acts.len() as u64);
    bfs(rep, "c01.seq", spec);
    // order independence: * / by small and large integers, + and - on values that carry, in every order
    {
        let oa: [i128; 8] = [1000, 77, NPC / 2, 5 * NPC + 2_840_184_000 * 1_000_000_000, -1, NPC + 5, -NPC / 2, 11 * NPC + NPC - 1];
        let ok: [i64; 6] = [2, 3, 5, 6, -4, 1 << 40];
        crate::engine::order_pairs(rep, "c01.order", 3 * 8 * 6 + 16, |i, out| {
            if i < 144 {
                judge_scale((i / 48) as usize, oa[((i / 6) % 8) as usize], ok[(i % 6) as usize], out);
            } else {
                let j = i - 144;
                judge_bin((j % 2) as usize, oa[(j / 2 % 8) as usize], oa[((j / 2 + 3) % 8) as usize], out);
            }
        });
    }
}

pub fn replay(check: &str, a: &[String], out: &mut Local) -> bool {
    let name = check.strip_prefix("c01.").unwrap_or(check);
    if let Some(op) = BIN.iter().position(|x| *x == name) {
        judge_bin(op, p128(&a[0]), p128(&a[1]), out);
    } else if name == "neg" || name == "abs" {
        judge_un((name == "abs") as usize, p128(&a[0]), out);
    } else if let Some(op) = SCALE_OPS.iter().position(|x| *x == name) {
        judge_scale(op, p128(&a[0]), p64(&a[1]), out);
    } else if let Some(op) = UNIT_OPS.iter().position(|x| *x == name) {
        judge_unit(op, p128(&a[0]), unit_from(&a[1]), out);
    } else if name == "unit_add_unit" || name == "unit_sub_unit" {
        judge_unit_unit((name == "unit_sub_unit") as usize, unit_from(&a[0]), unit_from(&a[1]), out);
    } else if name == "raw_operand" {
        judge_raw(a[0].parse().unwrap(), a[1].parse().unwrap(), a[2].parse().unwrap(), out);
    } else {
        return false;
    }
    true
}
