//! C09 Epoch -> Gregorian fields exactly inverts construction; Display prints them.
use super::c08::{cal_days, expected_count, rolling_tod, split_tod, TOD};
use super::common::*;
use crate::engine::sweep;
use crate::lattice;
use crate::oracle::civil::*;
use crate::oracle::dur::*;
use crate::oracle::etdb::EtDb;
use crate::oracle::leap::LeapTable;
use crate::oracle::scales;
use crate::oracle::text;
use crate::oracle::ulp::within_ulps;
use crate::report::{guard, Local, Report};
use hifitime::{Epoch, TimeScale};

fn era(y: i64) -> &'static str {
    if y < 1 {
        "year<1"
    } else if y < 1900 {
        "0001-1899"
    } else if y <= 3400 {
        "1900-3400"
    } else if y <= 9999 {
        "3401-9999"
    } else {
        "year>9999"
    }
}

fn todclass(tod: i128) -> &'static str {
    if tod == 0 {
        "midnight"
    } else if tod < 1000 {
        "first-us-of-day"
    } else if tod >= NS_DAY - 1000 {
        "last-us-of-day"
    } else {
        "within-day"
    }
}

/// decomposition of the count that denotes (days, tod) in scale ts
pub fn j_fields(days: i64, tod: i128, ts: TimeScale, out: &mut Local) {
    let c = expected_count(days, tod, ts);
    j_count(c, ts, Some((days, tod)), out)
}

pub fn j_count(c: i128, ts: TimeScale, dt: Option<(i64, i128)>, out: &mut Local) {
    let f = text::fields(c, ts);
    let (y, m, d, h, mi, s, ns) = f;
    if let Some((days, tod)) = dt {
        // the oracle's own inverse must agree with its forward direction
        assert_eq!((y, m, d), civil1900(days));
        assert_eq!((h as u8, mi as u8, s as u8, ns as u32), split_tod(tod));
    }
    let tod = (h as i128 * 3600 + mi as i128 * 60 + s as i128) * NS_S + ns as i128;
    let args = vec![scale_name(ts).to_string(), enc(c)];
    let e = Epoch::from_duration(mk(c), ts);
    let want = text::render(c, ts);
    let r = guard(|| {
        let shown = format!("{e}");
        let gs = e.to_gregorian_str(ts);
        let tup = match ts {
            TimeScale::UTC => Some((e.to_gregorian_utc(), format!("{e:?}"))),
            TimeScale::TAI => Some((e.to_gregorian_tai(), format!("{e:x}"))),
            _ => None,
        };
        let yr = e.year();
        let mn = e.month_name() as u8;
        let doy = e.day_of_year();
        let diy = alpha(e.duration_in_year());
        let ydoy = e.year_days_of_year();
        let back = Epoch::maybe_from_gregorian(y as i32, m as u8, d as u8, h as u8, mi as u8, s as u8, ns as u32, ts).map(|b| (alpha(b.duration), b.time_scale));
        (shown, gs, tup, yr, mn, doy, diy, ydoy, back)
    });
    let cls = format!("{},{}", era(y), todclass(tod));
    match r {
        Ok((shown, gs, tup, yr, mn, doy, diy, ydoy, back)) => {
            let want_tuple = (y as i32, m as u8, d as u8, h as u8, mi as u8, s as u8, ns as u32);
            let doy_i = day_of_year(y, m, d);
            let want_diy = (doy_i - 1) as i128 * NS_DAY + tod;
            // the YYYY text form is specified for years 0001-9999; outside, only fields, accessors and the inverse are judged
            let text_pinned = (1..=9999).contains(&y);
            if !text_pinned {
                if tup.as_ref().map(|(t, _)| *t != want_tuple).unwrap_or(false) {
                    out.viol("c09.fields", format!("tuple-wrong,{cls}"), args, format!("{want_tuple:?}"), format!("{:?}", tup.unwrap().0));
                } else if yr as i64 != y || mn as i64 != m - 1 || diy != want_diy || back != Ok((c, ts)) {
                    out.viol("c09.accessors", format!("far-year-accessor-or-inverse-wrong,{cls}"), args, format!("{y} month {m}, {want_diy} ns in year, rebuilds {c}"), format!("{yr} month#{mn} {diy} {back:?}"));
                } else {
                    out.ok(6, true, (ts as u64) | 1 << 12);
                    out.dontcare += 1;
                }
                return;
            }
            if shown != want {
                out.viol("c09.display", format!("display-wrong,{cls}"), args, want, shown);
            } else if gs != shown {
                out.viol("c09.display", format!("to_gregorian_str-differs,{cls}"), args, want, gs);
            } else if tup.as_ref().map(|(t, _)| *t != want_tuple).unwrap_or(false) {
                out.viol("c09.fields", format!("tuple-wrong,{cls}"), args, format!("{want_tuple:?}"), format!("{:?}", tup.unwrap().0));
            } else if tup.as_ref().map(|(_, s)| *s != want).unwrap_or(false) {
                out.viol("c09.display", format!("alt-formatter-own-scale-differs,{cls}"), args, want, tup.unwrap().1);
            } else if yr as i64 != y || mn as i64 != m - 1 {
                out.viol("c09.accessors", format!("year-or-month-wrong,{cls}"), args, format!("{y} {}", text::MONTHS[(m - 1) as usize]), format!("{yr} month#{mn}"));
            } else if diy != want_diy {
                out.viol("c09.accessors", format!("duration_in_year-wrong,{cls},diff={}", diffclass(diy, want_diy)), args, enc(want_diy), enc(diy));
            } else if !within_ulps(doy, doy_i as i128 * NS_DAY + tod, NS_DAY, 8, 366.0).0 || ydoy != (yr, doy) {
                out.viol("c09.accessors", format!("day_of_year-wrong,{cls}"), args, format!("{doy_i} + {tod} ns"), format!("{doy} / {ydoy:?}"));
            } else if back != Ok((c, ts)) {
                out.viol("c09.inverse", format!("fields-do-not-rebuild-the-epoch,{cls}"), args, describe(c), format!("{back:?}"));
            } else {
                let nt = tod == 0 || tod == NS_DAY - 1 || c < 0 || (y - 1900).abs() > 1500;
                out.ok(9, nt, (ts as u64) | ((c < 0) as u64) << 4 | ((ns == 0) as u64) << 5 | (m as u64) << 6 | (((y - 1900).abs() > 1500) as u64) << 10);
                if out.want_sample(nt) {
                    out.sample("c09.fields", args, want, nt);
                }
            }
        }
        Err(p) => out.viol("c09.fields", format!("panic:{},{cls}", p.class()), args, "no panic".into(), format!("{} {}", p.loc, p.msg)),
    }
}

/// the five alternate formatters print the epoch in UTC / TAI / TT / TDB / ET
pub fn j_alt(c: i128, ts: TimeScale, leap: &LeapTable, etdb: &EtDb, out: &mut Local) {
    let args = vec![scale_name(ts).to_string(), enc(c)];
    let e = Epoch::from_duration(mk(c), ts);
    let r = guard(|| (format!("{e:?}"), format!("{e:x}"), format!("{e:X}"), format!("{e:e}"), format!("{e:E}")));
    // the same decomposition reached two ways: the alternate formatter / to_gregorian_str(other scale) against the
    // default text form of the converted epoch (conversion accuracy itself is C05-C07's business)
    let cross = guard(|| {
        let mut bad: Option<(String, String, String)> = None;
        for (name, shown, t2) in [("debug", format!("{e:?}"), TimeScale::UTC), ("lowerhex", format!("{e:x}"), TimeScale::TAI), ("upperhex", format!("{e:X}"), TimeScale::TT), ("lowerexp", format!("{e:e}"), TimeScale::TDB), ("upperexp", format!("{e:E}"), TimeScale::ET)] {
            let via = format!("{}", e.to_time_scale(t2));
            if shown != via && bad.is_none() {
                bad = Some((format!("{name}-differs-from-display-of-converted-epoch"), via, shown));
            }
        }
        for t2 in SCALES {
            let a = e.to_gregorian_str(t2);
            let b = e.to_time_scale(t2).to_gregorian_str(t2);
            if a != b && bad.is_none() {
                bad = Some((format!("to_gregorian_str-other-scale-differs,{}", scale_name(t2)), b, a));
            }
        }
        bad
    });
    match cross {
        Ok(None) => {}
        Ok(Some((sig, want, got))) => {
            out.viol("c09.alt", sig, args, want, got);
            return;
        }
        Err(p) => {
            out.viol("c09.alt", format!("panic:{}", p.class()), args, "no panic".into(), format!("{} {}", p.loc, p.msg));
            return;
        }
    }
    // the model conversions below need the TAI count; ET/TDB sources (no closed-form inverse in the model) end here
    let Some(tai) = scales::to_tai(c, ts, leap) else {
        out.ok(28, true, (ts as u64) | 1 << 9);
        return;
    };
    match r {
        Ok((dbg, lx, ux, le, ue)) => {
            let w_tai = text::render(tai, TimeScale::TAI);
            let w_tt = text::render(tai + 32_184_000_000, TimeScale::TT);
            let w_utc = leap.tai_to_utc(tai).map(|u| text::render(u, TimeScale::UTC));
            if lx != w_tai {
                out.viol("c09.alt", "lowerhex-not-TAI".into(), args, w_tai, lx);
                return;
            }
            if ux != w_tt {
                out.viol("c09.alt", "upperhex-not-TT".into(), args, w_tt, ux);
                return;
            }
            if let Some(w) = &w_utc {
                if dbg != *w {
                    out.viol("c09.alt", "debug-not-UTC".into(), args, w.clone(), dbg);
                    return;
                }
            }
            // ET / TDB: to the second, when the closed form's +-30 ns cannot straddle a second boundary
            let t_sec = (tai - lattice::J2000_TAI) as f64 / 1e9 + 32.184;
            let mut checked = 0;
            for (shown, per, name, tsn) in [(&ue, etdb.et_periodic(t_sec), "upperexp-not-ET", TimeScale::ET), (&le, etdb.tdb_periodic(t_sec), "lowerexp-not-TDB", TimeScale::TDB)] {
                let p = tai - lattice::J2000_TAI + 32_184_000_000 + (per * 1e9).round() as i128;
                let sub = p.rem_euclid(NS_S);
                if (1000..NS_S - 1000).contains(&sub) {
                    let w = text::render(p - sub, tsn);
                    let wdt = &w[..w.len() - text::scale_str(tsn).len() - 1];
                    if !shown.starts_with(wdt) || !shown.ends_with(text::scale_str(tsn)) {
                        out.viol("c09.alt", name.into(), args, format!("{wdt}.* {}", text::scale_str(tsn)), shown.to_string());
                        return;
                    }
                    checked += 1;
                }
            }
            out.ok(33, ts != TimeScale::TAI, (ts as u64) | (checked as u64) << 4 | (w_utc.is_some() as u64) << 6);
            if out.want_sample(true) {
                out.sample("c09.alt", args, format!("{dbg} | {lx} | {ux} | {le} | {ue}"), true);
            }
        }
        Err(p) => out.viol("c09.alt", format!("panic:{}", p.class()), args, "no panic".into(), format!("{} {}", p.loc, p.msg)),
    }
}

pub fn run(rep: &mut Report) {
    let q = rep.quick();
    let (leap, consts) = LeapTable::load().expect("leap");
    let etdb = EtDb::new(consts);
    let days = cal_days(q);
    rep.bound("calendar_days", days.len() as u64);
    rep.rule = "calendar lattice (as C08) x 9 times of day (quick: 5 inside 1600-2400, 3 outside) x 9 scales: the count that denotes the date-time is decomposed by the real code (Display, to_gregorian_str, to_gregorian_utc/tai, the own-scale alternate formatter, year, month_name, day_of_year, duration_in_year, year_days_of_year) and rebuilt with maybe_from_gregorian; plus count -> decomposition -> rebuild on the epoch lattice EL(scale); plus the five alternate formatters against model conversions. Oracle: civil_from_days + reference renderer. Non-trivial = first/last nanosecond of a day, before the scale's zero, more than 1500 years from 1900.".into();
    rep.assumptions = vec!["C08 (construction) holds on the same lattice: the inverse direction is checked through maybe_from_gregorian".into()];
    // order independence (depth-2 operation sequences on one thread): 18 dates (mirrored about 1900, leap classes, far
    // years) x 2 times of day x 4 scales decomposed in every order
    {
        let od: Vec<i64> = [(1i64, 1i64, 1i64), (1, 3, 1), (4, 2, 29), (1400, 1, 1), (1582, 10, 15), (1899, 12, 31), (1900, 1, 1), (1900, 3, 1), (1972, 6, 30), (2000, 2, 29), (2016, 12, 31), (2017, 1, 1), (2024, 11, 30), (2400, 1, 1), (2400, 12, 31), (9999, 12, 31), (-400, 3, 1), (12_000, 7, 4)].iter().map(|(y, m, d)| days1900(*y, *m, *d)).chain([18_427i64, -18_427, 36_525, -36_525]).collect(); // (+ days mirrored about 1900-01-01)
        let os = [TimeScale::TAI, TimeScale::UTC, TimeScale::GPST, TimeScale::TDB];
        let no = od.len() as u64;
        crate::engine::order_pairs(rep, "c09.order", no * 2 * 4, |i, out| j_fields(od[(i % no) as usize], [0i128, 86_399 * NS_S + 999_999_999][((i / no) % 2) as usize], os[(i / (2 * no)) as usize], out));
    }
    // far years: EVERY year of -12 000 ..= 12 000 (thorough: -30 000 ..= 30 000) on three dates at the last nanosecond of the
    // day, scales rotating (the closed forms and year walks of the decomposition, year by year)
    {
        let span: i64 = if q { 12_000 } else { 30_000 };
        let ny = (2 * span + 1) as u64;
        rep.bound("far_year_scan", format!("{ny} years x 3 dates"));
        sweep(rep, "c09.fields[far-years]", ny * 3, |i, out| {
            let y = (i / 3) as i64 - span;
            let (m, d) = [(1i64, 1i64), (6, 15), (12, 31)][(i % 3) as usize];
            j_fields(days1900(y, m, d), 86_399 * NS_S + 999_999_999, SCALES[(i % 9) as usize], out)
        });
    }
    let nd = days.len() as u64;
    // the implementation's cost grows with the distance from 1900; quick tier uses 3 of the 9 times of day outside 1600-2400
    let lo = days1900(1600, 1, 1);
    let hi = days1900(2400, 12, 31);
    for ts in SCALES {
        sweep(rep, &format!("c09.fields[{}]", scale_name(ts)), nd * 9, |i, out| {
            let di = (i / 9) as usize;
            let k = (i % 9) as usize;
            if q && (((days[di] < lo || days[di] > hi) && ![0, 7, 8].contains(&k)) || ![0, 1, 6, 7, 8].contains(&k)) {
                return;
            }
            let tod = if k < 8 { TOD[k] } else { rolling_tod(days[di]) };
            j_fields(days[di], tod, ts, out)
        });
    }
    // interior scan (round 8): evenly spread, unremarkable (day, nanosecond of day) pairs over years 0001-9999 in every scale
    {
        let nsc: u64 = if q { 50_000 } else { 1_500_000 };
        rep.bound("interior_scan_points", nsc);
        let (d0, d1) = (days1900(1, 1, 1) as i128, days1900(9999, 12, 31) as i128);
        sweep(rep, "c09.scan_fields", 9 * nsc, |i, out| {
            let k = i / 9;
            j_fields(lattice::scan_point(k, 1, d0, d1) as i64, lattice::scan_point(k, 2, 0, NS_DAY - 1), SCALES[(i % 9) as usize], out)
        });
    }
    {
        // structured times of day: every whole hour, every whole minute of two hours, every whole second of two minutes, whole
        // milliseconds / microseconds - values that are special for the user, not for the code (a borrow or carry chain over the
        // time-of-day fields goes wrong when the lower fields are exactly zero)
        let mut st: Vec<i128> = vec![];
        for h in 0..24i128 {
            st.push(h * 3600 * NS_S);
        }
        for mi in 0..60i128 {
            st.push((6 * 3600 + mi * 60) * NS_S);
            st.push((23 * 3600 + mi * 60) * NS_S);
            st.push((6 * 3600 + 30 * 60 + mi) * NS_S);
            st.push((23 * 3600 + 59 * 60 + mi) * NS_S);
        }
        for k in [1i128, 2, 10, 100, 999] {
            st.push(k * 1_000_000);
            st.push(k * 1_000);
            st.push(12 * 3600 * NS_S + k * 1_000_000);
            st.push(86_399 * NS_S + k * 1_000_000);
        }
        st.sort();
        st.dedup();
        let days_s: Vec<i64> = {
            let (d0, d1) = (days1900(1, 1, 1), days1900(9999, 12, 31));
            let mut v: Vec<i64> = (d0..=d1).step_by(if q { 19_999 } else { 499 }).collect();
            v.extend([-1, 0, 1, -15_020, -36_525, -36_524, 36_524, 36_525, days1900(1858, 11, 16), days1900(1858, 11, 17), days1900(1899, 12, 31), days1900(1, 1, 1), days1900(9999, 12, 31), days1900(2016, 12, 31), days1900(1980, 1, 5), days1900(2000, 1, 1)]);
            v.sort();
            v.dedup();
            v
        };
        let (ns_, nd_) = (st.len() as u64, days_s.len() as u64);
        rep.bound("structured_times_of_day", format!("{ns_} times of day x {nd_} days x 9 scales"));
        sweep(rep, "c09.fields[structured-tod]", ns_ * nd_ * 9, |i, out| j_fields(days_s[((i / 9) / ns_) as usize], st[((i / 9) % ns_) as usize], SCALES[(i % 9) as usize], out));
    }
    for ts in SCALES {
        let el: Vec<i128> = lattice::el(ts, if q { 4 } else { 32 }, Some((-2, 40)));
        sweep(rep, &format!("c09.count[{}]", scale_name(ts)), el.len() as u64, |i, out| j_count(el[i as usize], ts, None, out));
        {
            sweep(rep, &format!("c09.alt[{}]", scale_name(ts)), el.len() as u64, |i, out| j_alt(el[i as usize], ts, &leap, &etdb, out));
        }
    }
}

pub fn replay(check: &str, a: &[String], out: &mut Local) -> bool {
    match check {
        "c09.display" | "c09.fields" | "c09.accessors" | "c09.inverse" => j_count(p128(&a[1]), scale_from(&a[0]), None, out),
        "c09.alt" => {
            let (leap, consts) = LeapTable::load().expect("leap");
            j_alt(p128(&a[1]), scale_from(&a[0]), &leap, &EtDb::new(consts), out)
        }
        _ => return false,
    }
    true
}
