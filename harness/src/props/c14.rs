//! C14 floor / ceil / round snap to multiples of the step, on the correct side.
use super::common::*;
use crate::engine::{bfs, sweep, SeqSpec};
use crate::lattice;
use crate::oracle::dur::*;
use crate::report::{guard, Local, Report};
use hifitime::{Duration, Epoch, TimeScale};

const OPS: [&str; 3] = ["floor", "ceil", "round"];

/// mathematical (unclamped) floor / ceil / round-half-up
fn model(op: usize, a: i128, s: i128) -> (i128, i128) {
    let s = s.abs();
    let f = a.div_euclid(s) * s;
    let c = f + s;
    let r = match op {
        0 => f,
        1 => c,
        _ => {
            if a - f < c - a {
                f
            } else {
                c
            }
        }
    };
    (r, f)
}

/// what the implementation computes when total_nanoseconds() is the D1-defective reader (KNOWN_FINDINGS D1)
fn d1_model(op: usize, a: i128, s: i128) -> Option<i128> {
    let t1 = d1_total(mk(a));
    let s1 = d1_total(mk(s));
    if s1 == 0 {
        return Some(0);
    }
    let fl = clamp(t1 - t1.rem_euclid(s1));
    if op == 0 {
        return Some(fl);
    }
    // ceil is computed from the unclamped floor of the (D1-read) count, plus |step|
    let ce = clamp((t1 - t1.rem_euclid(s1)).checked_add(clamp(s.abs()))?);
    if op == 1 {
        return Some(ce);
    }
    // round: the nearer of the two exact candidates of the (D1-read) count, ties up, clamped afterwards
    let f0 = t1 - t1.rem_euclid(s1);
    let c0 = f0.checked_add(clamp(s.abs()))?;
    let _ = (fl, ce);
    Some(clamp(if t1 - f0 < c0 - t1 { f0 } else { c0 }))
}

fn d1_involved(a: i128, s: i128) -> bool {
    let fl = {
        let t1 = d1_total(mk(a));
        let s1 = d1_total(mk(s));
        if s1 == 0 {
            0
        } else {
            clamp(t1 - t1.rem_euclid(s1))
        }
    };
    in_d1_domain(mk(a)) || in_d1_domain(mk(s)) || in_d1_domain(mk(fl))
}

pub fn j_dur(op: usize, a: i128, s: i128, out: &mut Local) -> Option<Duration> {
    let (da, ds) = (mk(a), mk(s));
    let got = guard(|| match op {
        0 => da.floor(ds),
        1 => da.ceil(ds),
        _ => da.round(ds),
    });
    let check = format!("c14.{}", OPS[op]);
    let args = vec![enc(a), enc(s)];
    if s == 0 {
        // a zero step yields zero
        return match &got {
            Ok(d) if alpha(*d) == 0 && canonical(*d) => {
                out.ok(1, true, 77);
                Some(*d)
            }
            _ => {
                let (cls, obs) = wrong_dur(&got, 0);
                out.viol(&check, format!("zero-step,{cls}"), args, "0".into(), obs);
                None
            }
        };
    }
    let (t, f) = model(op, a, s);

    // ceil when the floor is below the range: "the least multiple strictly greater than d" is unambiguous (and
    // representable), whatever happens to the floor itself
    let want = clamp(t);
    let nt = a < 0 || s < 0 || a.rem_euclid(s.abs()) == 0 || t != want;
    // round: "the two" are the floor and the ceil as the statement defines them (multiples of |s|); the nearer one is
    // chosen first and the result saturates afterwards. (An earlier version also accepted the nearer of the SATURATED
    // candidates next to MAX; the statement gives no ground for that reading: DESIGN.md §9.)
    let alt: Option<i128> = None;
    match &got {
        Ok(d) if canonical(*d) && Some(alpha(*d)) == alt && alpha(*d) != want => {
            out.ok(1, true, 1 << 20);
            Some(*d)
        }
        Ok(d) if canonical(*d) && alpha(*d) == want => {
            out.ok(1, nt, ((a < 0) as u64) | ((s < 0) as u64) << 1 | ((a.rem_euclid(s.abs()) == 0) as u64) << 2 | ((t != want) as u64) << 3 | ((want == f) as u64) << 4);
            if out.want_sample(nt) {
                out.sample(&check, args, format!("{}({}, step {}) = {}", OPS[op], describe(a), s, describe(want)), nt);
            }
            Some(*d)
        }
        _ => {
            if let Ok(d) = &got {
                if canonical(*d) && d1_involved(a, s) && d1_model(op, a, s) == Some(alpha(*d)) {
                    out.viol(&check, "defect:D1".into(), args, describe(want), format!("{} {}", show(*d), describe(alpha(*d))));
                    return None;
                }
            }
            let (cls, obs) = wrong_dur(&got, want);
            let rel = if a.rem_euclid(s.abs()) == 0 { "multiple" } else { "non-multiple" };
            out.viol(&check, format!("{cls},a:{},{rel},step{}", cclass(a), if s < 0 { "<0" } else { ">0" }), args, describe(want), obs);
            None
        }
    }
}

/// approx(): rounds to the largest non-zero unit of the decomposition
pub fn j_approx(a: i128, out: &mut Local) {
    let da = mk(a);
    let got = guard(|| da.approx());
    let (_, d, h, m, s, ms, us, _) = decompose(a);
    let unit = if d > 0 {
        NS_DAY
    } else if h > 0 {
        3600 * NS_S
    } else if m > 0 {
        60 * NS_S
    } else if s > 0 {
        NS_S
    } else if ms > 0 {
        1_000_000
    } else if us > 0 {
        1000
    } else {
        1
    };
    let (t, f) = model(2, a, unit);
    if f < DMIN {
        out.dc(1);
        return;
    }
    let want = clamp(t);
    let args = vec![enc(a)];
    let nt = a < 0 || a.rem_euclid(unit) * 2 == unit;
    match &got {
        Ok(r) if canonical(*r) && alpha(*r) == want => {
            out.ok(1, nt, (a < 0) as u64 | ((want > a) as u64) << 1 | ((unit.trailing_zeros() as u64) << 2));
            if out.want_sample(nt) {
                out.sample("c14.approx", args, format!("approx({}) = {}", describe(a), describe(want)), nt);
            }
        }
        _ => {
            if let Ok(r) = &got {
                if canonical(*r) && d1_involved(a, unit) && d1_model(2, a, unit) == Some(alpha(*r)) {
                    out.viol("c14.approx", "defect:D1".into(), args, describe(want), format!("{} {}", show(*r), describe(alpha(*r))));
                    return;
                }
            }
            let (cls, obs) = wrong_dur(&got, want);
            out.viol("c14.approx", format!("{cls},a:{}", cclass(a)), args, describe(want), obs);
        }
    }
}

pub fn j_epoch(op: usize, ts: TimeScale, a: i128, s: i128, out: &mut Local) {
    let e = Epoch::from_duration(mk(a), ts);
    let ds = mk(s);
    let got = guard(|| match op {
        0 => e.floor(ds),
        1 => e.ceil(ds),
        _ => e.round(ds),
    });
    let check = format!("c14.epoch_{}", OPS[op]);
    let args = vec![scale_name(ts).to_string(), enc(a), enc(s)];
    if s == 0 {
        // "a zero step yields zero", and on an epoch the operations act on its elapsed time: the reference epoch
        match got {
            Ok(r) if r.time_scale == ts && alpha(r.duration) == 0 => out.ok(1, true, 40 + op as u64),
            Ok(r) => out.viol(&check, "zero-step".into(), args, format!("{} 0", scale_name(ts)), format!("{} {}", scale_name(r.time_scale), alpha(r.duration))),
            Err(p) => out.viol(&check, format!("panic:{},zero-step", p.class()), args, "no panic".into(), format!("{} {}", p.loc, p.msg)),
        }
        return;
    }
    let (t, f) = model(op, a, s);
    if f < DMIN || t > DMAX {
        out.dc(1);
        return;
    }
    let nt = a < 0;
    match got {
        Ok(r) => {
            let g = alpha(r.duration);
            if r.time_scale != ts {
                out.viol(&check, "scale-changed".into(), args, scale_name(ts).into(), scale_name(r.time_scale).into());
            } else if g == t && canonical(r.duration) {
                // order facts of the statement, on counts in the epoch's own scale
                let ok = match op {
                    0 => g <= a && g.rem_euclid(s.abs()) == 0,
                    1 => g > a && g.rem_euclid(s.abs()) == 0,
                    _ => true,
                };
                assert!(ok);
                out.ok(1, nt, (a < 0) as u64 | (op as u64) << 1 | ((g == a) as u64) << 3);
                if out.want_sample(nt) {
                    out.sample(&check, args, format!("{} -> {}", describe(a), describe(g)), nt);
                }
            } else if d1_involved(a, s) && d1_model(op, a, s) == Some(g) {
                out.viol(&check, "defect:D1".into(), args, describe(t), describe(g));
            } else {
                let side = if op == 0 && g > a { "floor-later-than-epoch" } else if op == 1 && g <= a { "ceil-not-later" } else { "wrong-multiple" };
                out.viol(&check, format!("{side},diff={},{}", diffclass(g, t), if a < 0 { "before-reference" } else { "after-reference" }), args, describe(t), describe(g));
            }
        }
        Err(p) => out.viol(&check, format!("panic:{}", p.class()), args, "no panic".into(), format!("{} {}", p.loc, p.msg)),
    }
}

pub fn steps() -> Vec<i128> {
    let mut v = vec![0i128];
    // every divisibility relation between the step, the day and the century: steps that divide a day, steps that do not
    // (13 s, 7 min, 1 h 5 min, 7 h), whole days that divide a century (1, 3, 5 days...) and whole days that do not (2, 7,
    // 10, 30, 365 days), fractions of a century, and steps beyond one century
    for s in [
        1i128, 2, 3, 5, 7, 10, 1000, 1_000_000, 250_000_000, NS_S, 3 * NS_S / 2, 10 * NS_S, 13 * NS_S, 60 * NS_S, 420 * NS_S, 3600 * NS_S, 3900 * NS_S, 7 * 3600 * NS_S, NS_DAY, 2 * NS_DAY, 3 * NS_DAY, 7 * NS_DAY, 10 * NS_DAY, 30 * NS_DAY,
        365 * NS_DAY, 36_524 * NS_DAY, NPC / 2, NPC - 1, NPC, NPC + 1, 2 * NPC + 3, 3 * NPC, 16384 * NPC, DMAX,
    ] {
        v.push(s);
        v.push(clamp(-s));
    }
    v.sort();
    v.dedup();
    v
}

// Mode A: chains of floor/ceil/round from non-initial states
struct Seq {
    steps: Vec<i128>,
    inits: Vec<i128>,
    depth: usize,
}
impl SeqSpec for Seq {
    type S = (i16, u64);
    fn inits(&self) -> Vec<Self::S> {
        self.inits.iter().map(|v| mk(*v).to_parts()).collect()
    }
    fn n_actions(&self) -> usize {
        self.steps.len() * 3
    }
    fn action_name(&self, a: usize) -> String {
        format!("{}({})", OPS[a % 3], self.steps[a / 3])
    }
    fn state_name(&self, s: &Self::S) -> String {
        format!("{s:?}")
    }
    fn max_depth(&self) -> usize {
        self.depth
    }
    fn step(&self, s: &Self::S, a: usize, _path: &[u16], out: &mut Local) -> Option<Self::S> {
        let cur = s.0 as i128 * NPC + s.1 as i128;
        let st = self.steps[a / 3];
        let r = j_dur(a % 3, cur, st, out)?;
        let g = alpha(r);
        // chain invariants: a floored/ceiled value is a fixed point of floor with the same step
        if a % 3 != 2 && g != DMIN && g != DMAX {
            let again = guard(|| r.floor(mk(st)));
            match again {
                Ok(x) if alpha(x) == g => out.ok(1, true, 99),
                Ok(x) if d1_involved(g, st) && d1_model(0, g, st) == Some(alpha(x)) => out.viol("c14.floor", "defect:D1".into(), vec![enc(g), enc(st)], describe(g), describe(alpha(x))),
                Ok(x) => out.viol("c14.idempotence", format!("floor-not-idempotent,diff={}", diffclass(alpha(x), g)), vec![enc(cur), enc(st)], describe(g), describe(alpha(x))),
                Err(p) => out.viol("c14.idempotence", format!("panic:{}", p.class()), vec![enc(cur), enc(st)], "no panic".into(), p.msg),
            }
        }
        Some(r.to_parts())
    }
}

pub fn run(rep: &mut Report) {
    let deep = !rep.quick();
    let dl = lattice::dl(if deep { 16_384 } else { 2_048 }, true);
    let st = steps();
    rep.bound("DL_size", dl.len() as u64);
    rep.bound("steps", st.len() as u64);
    rep.rule = "Duration lattice DL (incl. unit multiples +-3 ns) x 69 steps of both signs (1 ns .. centuries .. MAX, and 0; steps that do and do not divide a day, whole days that do and do not divide a century) under floor/ceil/round; approx on DL; epochs = counts within +-100 centuries of each scale's zero x steps x 9 scales; stateright BFS over chains of floor/ceil/round with different steps. Oracle: div_euclid on the i128 count, clamp. Non-trivial = negative count, negative step, exact multiple, or saturating result.".into();
    rep.assumptions = vec!["Duration::from_parts/to_parts exact (C02)".into()];
    let (n, m) = (dl.len() as u64, st.len() as u64);
    for op in 0..3 {
        sweep(rep, &format!("c14.{}", OPS[op]), n * m, |i, out| {
            j_dur(op, dl[(i / m) as usize], st[(i % m) as usize], out);
        });
    }
    sweep(rep, "c14.approx", n, |i, out| j_approx(dl[i as usize], out));    // interior scan (round 8): evenly spread, unremarkable durations x unremarkable steps (odd and even, every magnitude)
    {
        let nsc: u64 = if deep { 30_000_000 } else { 2_000_000 };
        rep.bound("interior_scan_points", nsc);
        sweep(rep, "c14.scan_dur", 3 * nsc, |i, out| {
            let k = i / 3;
            let s = match k % 4 {
                0 => lattice::scan_point(k, 1, 1, 100_000),                      // small steps, every residue class
                1 => lattice::scan_magnitude(k, 2, 1, 76).clamp(DMIN, DMAX),     // every magnitude, both signs
                2 => -lattice::scan_point(k, 3, 1, 10_000_000_000_000),          // negative steps up to hours
                _ => lattice::scan_point(k, 4, 1, 400 * NS_DAY),
            };
            j_dur((i % 3) as usize, scan_dur(k, 0), s, out);
        });
            // every small count of every unit as a step (all whole seconds and minutes up to 120, hours up to 48, days up to 40,
        // ms / us up to 20, both signs): steps that do and do not divide the next unit, x unremarkable durations; and the tie
        // probes of every step: k x |s| + |s|/2 -2..+2 ns (both roundings of an odd half)
        let mut us: Vec<i128> = vec![];
        for (unit, top) in [(NS_S, 120i128), (60 * NS_S, 120), (3600 * NS_S, 48), (NS_DAY, 40), (1_000_000, 20), (1_000, 20), (7 * NS_DAY, 8)] {
            for k in 1..=top {
                us.push(k * unit);
                us.push(-k * unit);
            }
        }
        let nu = us.len() as u64;
        rep.bound("unit_count_steps", nu);
        sweep(rep, "c14.unit_steps", 3 * nu * 400, |i, out| {
            let k = i / (3 * nu);
            j_dur((i % 3) as usize, if k % 2 == 0 { lattice::scan_point(k, 0, -3 * NPC / 2, 3 * NPC) } else { lattice::scan_magnitude(k, 1, 30, 66) }, us[((i / 3) % nu) as usize], out);
        });
        let mut ts: Vec<i128> = st.iter().copied().filter(|s| *s != 0 && s.abs() < DMAX / 4).collect();
        ts.extend(us.iter().copied());
        for k in 0..200u64 {
            ts.push(lattice::scan_magnitude(k, 2, 2, 74)); // unremarkable steps of every magnitude, odd and even
        }
        let nt = ts.len() as u64;
        rep.bound("tie_probe_steps", nt);
        sweep(rep, "c14.ties", 3 * nt * 6 * 10, |i, out| {
            let s = ts[((i / 3) % nt) as usize];
            let j = i / (3 * nt);
            let m = s.abs();
            let k = [-3i128, -1, 0, 1, 2, 1000][(j % 6) as usize];
            let half = [m / 2 - 2, m / 2 - 1, m / 2, m / 2 + 1, m / 2 + 2, (m + 1) / 2, m - 1, 1, 0, m / 3][(j / 6) as usize];
            let a = k * m + half;
            if (DMIN..=DMAX).contains(&a) {
                j_dur((i % 3) as usize, a, s, out);
            }
        });
        // approx at the half-unit points of every unit, both signs (ties), +- 1 ns
        let mut ap: Vec<i128> = vec![];
        for unit in [1_000i128, 1_000_000, NS_S, 60 * NS_S, 3600 * NS_S, NS_DAY] {
            for k in [0i128, 1, 2, 3, 11, 23, 59, 364] {
                for d in [-1i128, 0, 1] {
                    ap.push(k * unit + unit / 2 + d);
                    ap.push(-(k * unit + unit / 2) + d);
                }
            }
        }
        sweep(rep, "c14.approx_ties", ap.len() as u64, |i, out| j_approx(ap[i as usize], out));
    sweep(rep, "c14.scan_approx", nsc, |i, out| j_approx(scan_dur(i, 5), out));
    }

    // order independence (depth-2 operation sequences on one thread): floor / ceil / round of 8 durations by 6 steps
    {
        let oa: [i128; 8] = [0, 1, -1, 14 * NS_S, NPC + 14 * NS_S, -NPC / 2, 2 * NPC, 60 * 31_557_600 * NS_S];
        let os: [i128; 6] = [7 * NS_S, -7 * NS_S, NS_DAY, 7 * NS_DAY, NPC, 3_600 * NS_S];
        crate::engine::order_pairs(rep, "c14.order", 3 * 8 * 6, |i, out| {
            j_dur((i / 48) as usize, oa[((i / 6) % 8) as usize], os[(i % 6) as usize], out);
        });
    }
    let el: Vec<i128> = dl.iter().copied().filter(|v| v.abs() <= 100 * NPC).collect();
    let ne = el.len() as u64;
    rep.bound("epoch_counts", ne);
    for op in 0..3 {
        sweep(rep, &format!("c14.epoch_{}", OPS[op]), ne * m * 9, |i, out| {
            let ts = SCALES[(i % 9) as usize];
            let j = i / 9;
            j_epoch(op, ts, el[(j / m) as usize], st[(j % m) as usize], out);
        });
    }
    let depth = if deep { 4 } else { 3 };
    rep.bound("seq_depth", depth as u64);
    let seq_steps: Vec<i128> = vec![1, 7, -7, NS_S, -3600 * NS_S, NS_DAY, NPC - 1, NPC, NPC + 1, 2 * NPC + 3];
    let inits = vec![0, 1, -1, NPC + 5, -NPC - 5, -NPC / 2, 12345678901234567, -12345678901234567, DMAX - 3, DMIN + 3, 3 * NPC - 1, -3 * NPC + 1];
    bfs(rep, "c14.seq", Seq { steps: seq_steps, inits, depth });
}

pub fn replay(check: &str, a: &[String], out: &mut Local) -> bool {
    let name = check.strip_prefix("c14.").unwrap_or("");
    if let Some(op) = OPS.iter().position(|x| *x == name) {
        j_dur(op, p128(&a[0]), p128(&a[1]), out);
    } else if name == "approx" {
        j_approx(p128(&a[0]), out);
    } else if name == "idempotence" {
        let r = j_dur(0, p128(&a[0]), p128(&a[1]), out);
        if let Some(r) = r {
            j_dur(0, alpha(r), p128(&a[1]), out);
        }
    } else if let Some(op) = OPS.iter().position(|x| name == format!("epoch_{x}")) {
        j_epoch(op, scale_from(&a[0]), p128(&a[1]), p128(&a[2]), out);
    } else {
        return false;
    }
    true
}
