//! C02 Duration <-> integer nanosecond count round-trips; one canonical representation.
use super::common::*;
use crate::engine::sweep;
use crate::lattice;
use crate::oracle::dur::*;
use crate::report::{guard, Local, Report};
use hifitime::{Duration, TimeUnits, Unit};

fn check_dur(check: &str, args: Vec<String>, got: Result<Duration, crate::report::Panicked>, want: i128, nt: bool, outcome: u64, out: &mut Local) {
    match &got {
        Ok(d) if canonical(*d) && alpha(*d) == want => {
            out.ok(1, nt, outcome | (want == DMIN) as u64 | ((want == DMAX) as u64) << 1);
            if out.want_sample(nt) {
                out.sample(check, args, format!("-> {}", describe(want)), nt);
            }
        }
        _ => {
            let (cls, obs) = wrong_dur(&got, want);
            out.viol(check, cls, args, describe(want), obs);
        }
    }
}

pub fn j_from_parts(c: i16, n: u64, out: &mut Local) {
    let want = clamp(c as i128 * NPC + n as i128);
    let got = guard(|| Duration::from_parts(c, n));
    check_dur("c02.from_parts", vec![c.to_string(), n.to_string()], got, want, c < 0 || n as i128 >= NPC, ((c < 0) as u64) << 2 | ((n as i128 >= NPC) as u64) << 3, out);
}

pub fn j_from_total(v: i128, out: &mut Local) {
    let want = clamp(v);
    let got = guard(|| Duration::from_total_nanoseconds(v));
    check_dur("c02.from_total", vec![enc(v)], got, want, v < 0 || v.unsigned_abs() > i64::MAX as u128, ((v < 0) as u64) << 2 | ((v.unsigned_abs() > i64::MAX as u128) as u64) << 3, out);
}

pub fn j_total(v: i128, out: &mut Local) {
    let d = mk(v);
    let got = guard(|| d.total_nanoseconds());
    let nt = v < 0;
    match got {
        Ok(x) if x == v => {
            out.ok(1, nt, ((v < 0) as u64) | ((v < -NPC) as u64) << 1);
            if out.want_sample(nt) {
                out.sample("c02.total_ns", vec![enc(v)], format!("total_nanoseconds({}) = {x}", show(d)), nt);
            }
        }
        Ok(x) if in_d1_domain(d) && x == d1_total(d) => out.viol("c02.total_ns", "defect:D1".into(), vec![enc(v)], enc(v), enc(x)),
        Ok(x) => out.viol("c02.total_ns", format!("wrong,diff={},a:{}", diffclass(x, v), cclass(v)), vec![enc(v)], enc(v), enc(x)),
        Err(p) => out.viol("c02.total_ns", format!("panic:{}", p.class()), vec![enc(v)], enc(v), format!("panic {} {}", p.loc, p.msg)),
    }
}

pub fn j_from_trunc(n: i64, out: &mut Local) {
    let got = guard(|| Duration::from_truncated_nanoseconds(n));
    check_dur("c02.from_trunc", vec![n.to_string()], got, n as i128, n < 0, ((n < 0) as u64) << 2, out);
}

pub fn j_try_trunc(v: i128, out: &mut Local) {
    let d = mk(v);
    let fits = v >= i64::MIN as i128 && v <= i64::MAX as i128;
    let must = v.abs() < 2 * NPC; // statement: between -2 and +2 centuries the count itself
    let got = guard(|| d.try_truncated_nanoseconds());
    let nt = v < 0 || !must;
    let args = vec![enc(v)];
    match got {
        Ok(Ok(x)) if x as i128 == v => {
            out.ok(1, nt, 1 | ((v < 0) as u64) << 2);
            if out.want_sample(nt) {
                out.sample("c02.try_trunc", args, format!("Ok({x})"), nt);
            }
        }
        Ok(Err(_)) if !must => {
            // documented refusal beyond +-2 centuries (mandatory when the count does not fit)
            out.ok(1, nt, 2 | ((v < 0) as u64) << 2 | (fits as u64) << 3);
        }
        Ok(Ok(x)) => out.viol("c02.try_trunc", format!("Ok(wrong),diff={},a:{}", diffclass(x as i128, v), cclass(v)), args, if fits { format!("Ok({v})") } else { "Err".into() }, format!("Ok({x})")),
        Ok(Err(e)) => out.viol("c02.try_trunc", format!("Err-inside-2c,a:{}", cclass(v)), args, format!("Ok({v})"), format!("Err({e})")),
        Err(p) => out.viol("c02.try_trunc", format!("panic:{}", p.class()), args, "no panic".into(), format!("panic {} {}", p.loc, p.msg)),
    }
    // non-failing variant
    let got = guard(|| d.truncated_nanoseconds());
    let args = vec![enc(v)];
    let bound = if v < 0 { i64::MIN } else { i64::MAX };
    match got {
        Ok(x) if x as i128 == v => out.ok(1, nt, 5 | ((v < 0) as u64) << 2),
        // the bound only "when the count does not fit in an i64"; for a count that fits, the bound is "a different number"
        Ok(x) if !fits && x == bound => out.ok(1, nt, 6 | ((v < 0) as u64) << 2),
        Ok(x) if fits && !must && x == bound => out.viol("c02.trunc", format!("bound-returned-for-a-count-that-fits-in-i64,a:{}", cclass(v)), args, format!("{v}"), format!("{x}")),
        Ok(x) => out.viol("c02.trunc", format!("wrong,diff={},a:{}", diffclass(x as i128, v), cclass(v)), args, if fits { format!("{v}") } else { format!("{bound}") }, format!("{x}")),
        Err(p) => out.viol("c02.trunc", format!("panic:{}", p.class()), args, "no panic".into(), format!("panic {} {}", p.loc, p.msg)),
    }
}

const UM: [&str; 3] = ["n_mul_unit", "unit_mul_n", "n_dot_unit"];
pub fn j_unit(form: usize, k: i64, u: Unit, out: &mut Local) {
    let want = clamp(k as i128 * unit_ns(u));
    let got = guard(|| match form {
        0 => k * u,
        1 => u * k,
        _ => match u {
            Unit::Nanosecond => k.nanoseconds(),
            Unit::Microsecond => k.microseconds(),
            Unit::Millisecond => k.milliseconds(),
            Unit::Second => k.seconds(),
            Unit::Minute => k.minutes(),
            Unit::Hour => k.hours(),
            Unit::Day => k.days(),
            Unit::Week => k.weeks(),
            Unit::Century => k.centuries(),
        },
    });
    let t = k as i128 * unit_ns(u);
    let nt = k < 0 || t.abs() > i64::MAX as i128;
    let args = vec![k.to_string(), unit_name(u).into()];
    let check = format!("c02.{}", UM[form]);
    match &got {
        Ok(d) if canonical(*d) && alpha(*d) == want => {
            out.ok(1, nt, ((k < 0) as u64) << 2 | ((t.abs() > i64::MAX as i128) as u64) << 3 | (want == DMIN) as u64 | ((want == DMAX) as u64) << 1);
            if out.want_sample(nt) {
                out.sample(&check, args, format!("-> {}", describe(want)), nt);
            }
        }
        _ => {
            let (cls, obs) = wrong_dur(&got, want);
            out.viol(&check, format!("{cls},{}", if k == i64::MIN { "k=i64::MIN" } else if k < 0 { "k<0" } else { "k>=0" }), args, describe(want), obs);
        }
    }
}

pub const CF: [u64; 12] = [0, 1, 23, 24, 59, 60, 999, 1000, 36524, 36525, 1 << 32, (1 << 53) - 1];
pub fn j_compose(sign: i8, f: [u64; 7], out: &mut Local) {
    let w: [i128; 7] = [NS_DAY, 3_600 * NS_S, 60 * NS_S, NS_S, 1_000_000, 1_000, 1];
    let mut t: i128 = 0;
    for i in 0..7 {
        t += f[i] as i128 * w[i];
    }
    if sign < 0 {
        t = -t;
    }
    let want = clamp(t);
    let got = guard(|| Duration::compose(sign, f[0], f[1], f[2], f[3], f[4], f[5], f[6]));
    let big = (0..7).any(|i| f[i] as i128 * w[i] >= 1 << 53);
    let nt = sign < 0 || big || f.iter().filter(|x| **x != 0).count() >= 2;
    let mut args = vec![sign.to_string()];
    args.extend(f.iter().map(|x| x.to_string()));
    match &got {
        Ok(d) if canonical(*d) && alpha(*d) == want => {
            out.ok(1, nt, ((sign < 0) as u64) << 2 | (big as u64) << 3 | (want == DMIN) as u64 | ((want == DMAX) as u64) << 1);
            if out.want_sample(nt) {
                out.sample("c02.compose", args, format!("-> {}", describe(want)), nt);
            }
        }
        _ => {
            let (cls, obs) = wrong_dur(&got, want);
            out.viol("c02.compose", format!("{cls},{}", if big { "field*unit>=2^53ns" } else { "small-fields" }), args, describe(want), obs);
        }
    }
}

pub fn j_std(secs: u64, nanos: u32, out: &mut Local) {
    let sd = std::time::Duration::new(secs, nanos);
    let t = sd.as_nanos() as i128;
    let want = clamp(t);
    let got = guard(|| Duration::from(sd));
    let args = vec![secs.to_string(), nanos.to_string()];
    match &got {
        Ok(d) if canonical(*d) && alpha(*d) == want => {
            out.ok(1, t > DMAX || nanos != 0, (want == DMAX) as u64 | ((nanos != 0) as u64) << 1);
            if out.want_sample(true) {
                out.sample("c02.from_std", args.clone(), format!("-> {}", describe(want)), true);
            }
            // and back (non-negative durations only: the negative direction is documented to give ZERO)
            if t <= DMAX {
                let back = guard(|| std::time::Duration::from(*d));
                match back {
                    Ok(b) if b == sd => out.ok(1, true, 9),
                    Ok(b) => out.viol("c02.to_std", "wrong".into(), args, format!("{sd:?}"), format!("{b:?}")),
                    Err(p) => out.viol("c02.to_std", format!("panic:{}", p.class()), args, "no panic".into(), format!("{} {}", p.loc, p.msg)),
                }
            }
        }
        _ => {
            let (cls, obs) = wrong_dur(&got, want);
            out.viol("c02.from_std", cls, args, describe(want), obs);
        }
    }
}

fn parts_axis() -> Vec<u64> {
    let mut v: Vec<u64> = vec![];
    for k in 0..=5u64 {
        for o in -3i128..=3 {
            let x = k as i128 * NPC + o;
            if x >= 0 && x <= u64::MAX as i128 {
                v.push(x as u64);
            }
        }
    }
    for o in 0..=3 {
        v.push(u64::MAX - o);
    }
    v.push((NPC / 2) as u64);
    v.push(NS_S as u64);
    v.sort();
    v.dedup();
    v
}

fn compose_cases(quick: bool) -> Vec<(i8, [u64; 7])> {
    let mut v = vec![];
    for sign in [-1i8, 0, 1] {
        if quick {
            v.push((sign, [0; 7]));
            for i in 0..7 {
                for a in CF.iter().skip(1) {
                    let mut f = [0u64; 7];
                    f[i] = *a;
                    v.push((sign, f));
                    for j in (i + 1)..7 {
                        for b in CF.iter().skip(1) {
                            let mut g = f;
                            g[j] = *b;
                            v.push((sign, g));
                        }
                    }
                }
            }
        }
    }
    v
}

pub fn run(rep: &mut Report) {
    let deep = !rep.quick();
    let q = false;
    let dl = lattice::dl(if deep { 1024 } else { 256 }, true);
    let kl = lattice::kl();
    rep.rule = "from_parts on 22 century anchors (thorough: all 65 536 century values) x the u64 nanosecond axis (every century multiple +-3, u64::MAX-0..3); from_total_nanoseconds / total_nanoseconds / the 64-bit accessors on the duration lattice DL plus i128 extremes; n*Unit, Unit*n, n.unit() on KL x 9 units; compose on the boundary-field product (thorough: also 3 x 16^7 compositions over a wider set); std conversions. Oracle: i128 count + clamp + canonical-form predicate. Non-trivial = negative century count, nanosecond field >= one century, count outside i64, or a saturating input.".into();
    rep.assumptions = vec!["Duration::to_parts() returns the stored fields".into()];
    // thorough: every one of the 65 536 century values; quick: the 22 anchors
    let cs: Vec<i16> = if deep { (i16::MIN..=i16::MAX).collect() } else { lattice::CENTURY_ANCHORS.iter().filter(|c| **c <= 32767).map(|c| *c as i16).collect() };
    let ns = parts_axis();
    rep.bound("from_parts_axis", format!("{} centuries x {} nanosecond values", cs.len(), ns.len()));
    rep.bound("DL_size", dl.len() as u64);
    let nn = ns.len() as u64;
    sweep(rep, "c02.from_parts", cs.len() as u64 * nn, |i, out| j_from_parts(cs[(i / nn) as usize], ns[(i % nn) as usize], out));

    let mut tl = dl.clone();
    for x in [i128::MIN, i128::MIN + 1, i128::MAX - 1, i128::MAX, DMIN - 1, DMIN - 2, DMAX + 1, DMAX + 2, DMIN - NPC, DMAX + NPC] {
        tl.push(x);
    }
    tl.sort();
    sweep(rep, "c02.from_total", tl.len() as u64, |i, out| j_from_total(tl[i as usize], out));
    sweep(rep, "c02.total_ns", dl.len() as u64, |i, out| j_total(dl[i as usize], out));
    let i64l: Vec<i64> = dl.iter().filter(|v| **v >= i64::MIN as i128 && **v <= i64::MAX as i128).map(|v| *v as i64).collect();
    sweep(rep, "c02.from_trunc", i64l.len() as u64, |i, out| j_from_trunc(i64l[i as usize], out));
    sweep(rep, "c02.try_trunc+trunc", dl.len() as u64, |i, out| j_try_trunc(dl[i as usize], out));
    // interior scan (round 8): evenly spread, unremarkable counts / factors / fields
    {
        let nsc: u64 = if deep { 30_000_000 } else { 2_000_000 };
        rep.bound("interior_scan_points", nsc);
        sweep(rep, "c02.scan_from_total", nsc, |i, out| j_from_total(if i % 8 == 7 { ((lattice::scan_point(i, 1, i64::MIN as i128, i64::MAX as i128) << 64) | lattice::scan_point(i, 2, 0, u64::MAX as i128)) } else { scan_dur(i, 0) }, out));
        sweep(rep, "c02.scan_total_ns", nsc, |i, out| j_total(scan_dur(i, 1), out));
        sweep(rep, "c02.scan_from_trunc", nsc, |i, out| j_from_trunc(scan_i64(i, 2), out));
        sweep(rep, "c02.scan_try_trunc", nsc, |i, out| j_try_trunc(scan_dur(i, 3), out));
        sweep(rep, "c02.scan_from_parts", nsc, |i, out| j_from_parts(lattice::scan_point(i, 4, i16::MIN as i128, i16::MAX as i128) as i16, lattice::scan_point(i, 5, 0, u64::MAX as i128) as u64, out));
        sweep(rep, "c02.scan_unit", 3 * 9 * (nsc / 8), |i, out| j_unit((i % 3) as usize, scan_i64(i / 27, 0), UNITS[((i / 3) % 9) as usize], out));
        sweep(rep, "c02.scan_compose", nsc / 2, |i, out| {
            // fields: unremarkable values below a few thousand of each unit, one field in eight over its whole u64 range
            let mut f = [0u64; 7];
            for (j, slot) in f.iter_mut().enumerate() {
                let k = i.wrapping_mul(7).wrapping_add(j as u64);
                // each field up to ten times the count at which it carries into the next one (5000 days), so that the residues of
                // several un-normalised fields add up in every way
                const TOP: [i128; 7] = [5000, 240, 600, 600, 10_000, 10_000_000, 10_000_000_000];
                *slot = if (i + j as u64) % 8 == 0 { lattice::scan_point(k, j % 6, 0, u64::MAX as i128) as u64 } else { lattice::scan_point(k, j % 6, 0, TOP[j]) as u64 };
            }
            j_compose([-1i8, 1, 0, i8::MIN, i8::MAX, -1, 1, 1][(i % 8) as usize], f, out)
        });
        // every whole number of centuries of the range (and its neighbours) through the count constructors, the readers and
        // the integer-count-of-a-unit forms: a split of the count that is estimated (float, shift, table) instead of divided
        // goes wrong on a scattered subset of whole centuries, not at the ends of the range
        sweep(rep, "c02.every_century", 65_537 * 16, |i, out| {
            let k = (i / 16) as i128 - 32_768;
            match i % 16 {
                0..=4 => j_from_total((k * NPC + [0i128, -1, 1, 999_999, -999_999][(i % 16) as usize]).clamp(DMIN, DMAX), out),
                5..=7 => j_total((k * NPC + [0i128, -1, 1][(i % 16 - 5) as usize]).clamp(DMIN, DMAX), out),
                8 => j_try_trunc((k * NPC).clamp(DMIN, DMAX), out),
                9..=11 => j_unit((i % 16 - 9) as usize, k as i64, Unit::Century, out),
                12..=14 => j_unit((i % 16 - 12) as usize, k as i64 * 36_525, Unit::Day, out),
                _ => j_unit(0, k as i64 * 3_155_760_000, Unit::Second, out),
            }
        });
        sweep(rep, "c02.scan_std", nsc / 2, |i, out| j_std(if i % 4 == 0 { lattice::scan_point(i, 0, 0, u64::MAX as i128) as u64 } else { lattice::scan_point(i, 1, 0, 400_000_000_000) as u64 }, lattice::scan_point(i, 2, 0, 999_999_999) as u32, out));
    }
    let nk = kl.len() as u64;
    for form in 0..3 {
        let k = &kl;
        sweep(rep, &format!("c02.{}", UM[form]), nk * 9, |i, out| j_unit(form, k[(i / 9) as usize], UNITS[(i % 9) as usize], out));
    }
    if q {
        let cc = compose_cases(true);
        rep.bound("compose", "sign x (at most two non-zero fields from the 12-value boundary set)");
        sweep(rep, "c02.compose", cc.len() as u64, |i, out| j_compose(cc[i as usize].0, cc[i as usize].1, out));
    } else {
        rep.bound("compose", "sign {i8::MIN,-1,0,1,i8::MAX} x full product of 7 fields over the 12-value boundary set (5 x 12^7); far-range: 7 signs x one field at k centuries +-1 unit (k up to 32768) or u64::MAX x a second small field");
        let n7 = 12u64.pow(7);
        sweep(rep, "c02.compose", 5 * n7, |i, out| {
            let sign = [i8::MIN, -1, 0, 1, i8::MAX][(i / n7) as usize];
            let mut r = i % n7;
            let mut f = [0u64; 7];
            for slot in f.iter_mut() {
                *slot = CF[(r % 12) as usize];
                r /= 12;
            }
            j_compose(sign, f, out)
        });
    }
    if deep {
        // thorough: a second, wider boundary set (16 values per field: unit carries, u32/u64 edges, one century of the
        // field's unit is covered by [far]) for the signs -1, 0, 1: 3 x 16^7 compositions
        const CF2: [u64; 16] = [0, 1, 2, 23, 24, 25, 59, 60, 61, 999, 1000, 1001, 86_399, 86_400, u32::MAX as u64, 1 << 62];
        let n7 = 16u64.pow(7);
        rep.bound("compose_wide", "signs {-1,0,1} x full product of 7 fields over a 16-value boundary set (3 x 16^7)");
        sweep(rep, "c02.compose[wide]", 3 * n7, |i, out| {
            let sign = [-1i8, 0, 1][(i / n7) as usize];
            let mut r = i % n7;
            let mut f = [0u64; 7];
            for slot in f.iter_mut() {
                *slot = CF2[(r % 16) as usize];
                r /= 16;
            }
            j_compose(sign, f, out)
        });
    }
    // far range: one field alone reaches k centuries (k = 1, 2, 3, 100, 32766, 32767, 32768) +- one of its units, or is
    // u64::MAX; a second field is small; every sign class of the i8 argument
    {
        let w: [i128; 7] = [NS_DAY, 3_600 * NS_S, 60 * NS_S, NS_S, 1_000_000, 1_000, 1];
        let mut far: Vec<(i8, [u64; 7])> = vec![];
        for sign in [i8::MIN, -2, -1, 0, 1, 2, i8::MAX] {
            for i in 0..7 {
                let mut vals: Vec<u64> = vec![u64::MAX, u64::MAX - 1];
                for k in [1i128, 2, 3, 100, 32_766, 32_767, 32_768] {
                    for d in [-1i128, 0, 1] {
                        let v = k * NPC / w[i] + d;
                        if v >= 0 && v <= u64::MAX as i128 {
                            vals.push(v as u64);
                        }
                    }
                }
                for v in vals {
                    for j in 0..7 {
                        if j == i {
                            continue;
                        }
                        for b in [0u64, 1, 59, 999] {
                            let mut f = [0u64; 7];
                            f[i] = v;
                            f[j] = b;
                            far.push((sign, f));
                        }
                    }
                }
            }
        }
        sweep(rep, "c02.compose[far]", far.len() as u64, |i, out| j_compose(far[i as usize].0, far[i as usize].1, out));
    }
    let max_s = (DMAX / NS_S) as u64;
    let stds: Vec<(u64, u32)> = {
        let mut v = vec![];
        for s in [0u64, 1, 59, 86_399, 86_400, 3_155_760_000, 3_155_759_999, (i64::MAX as u64) / 1_000_000_000, max_s - 1, max_s, max_s + 1, u64::MAX / 2, u64::MAX] {
            for n in [0u32, 1, 999_999_999, 500_000_000] {
                v.push((s, n));
            }
        }
        v
    };
    sweep(rep, "c02.std", stds.len() as u64, |i, out| j_std(stds[i as usize].0, stds[i as usize].1, out));
    // order independence: conversions of counts whose 64-bit halves fold onto each other, far-range counts, far-range unit
    // products, in every order
    {
        let mut ov: Vec<i128> = vec![-1, (1 << 48) - 1, -5, (1 << 48) - 5, 1 << 48, 1 << 64, 5, (1 << 64) + (1 << 48) + 5, 0, NPC, -NPC];
        for k in 3..=12i128 {
            ov.push(k * NPC + 17 * k);
        }
        let ou: [(i64, Unit); 6] = [(146_101, Unit::Day), (4_383_007, Unit::Hour), (7, Unit::Century), (-9, Unit::Century), (15_251, Unit::Week), (1, Unit::Second)];
        let nv = ov.len() as u64;
        crate::engine::order_pairs(rep, "c02.order", nv + 6, |i, out| if i < nv { j_from_total(ov[i as usize], out) } else { j_unit((i % 3) as usize, ou[(i - nv) as usize].0, ou[(i - nv) as usize].1, out) });
    }
}

pub fn replay(check: &str, a: &[String], out: &mut Local) -> bool {
    match check {
        "c02.from_parts" => j_from_parts(a[0].parse().unwrap(), pu64(&a[1]), out),
        "c02.from_total" => j_from_total(p128(&a[0]), out),
        "c02.total_ns" => j_total(p128(&a[0]), out),
        "c02.from_trunc" => j_from_trunc(p64(&a[0]), out),
        "c02.try_trunc" | "c02.trunc" => j_try_trunc(p128(&a[0]), out),
        "c02.compose" => {
            let mut f = [0u64; 7];
            for i in 0..7 {
                f[i] = pu64(&a[i + 1]);
            }
            j_compose(a[0].parse().unwrap(), f, out)
        }
        "c02.from_std" | "c02.to_std" => j_std(pu64(&a[0]), a[1].parse().unwrap(), out),
        _ => {
            if let Some(form) = UM.iter().position(|x| check == format!("c02.{x}")) {
                j_unit(form, p64(&a[0]), unit_from(&a[1]), out)
            } else {
                return false;
            }
        }
    }
    true
}
