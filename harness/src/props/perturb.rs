//! Preludes for the order-independence exploration (`engine::order_pairs`, phase 6) and for the fresh-process exploration
//! (`HMC_FIRST`): calls into parts of the API that a property's own menu does not touch, executed BEFORE a judged operation.
//! Their results are discarded; a stateless library cannot be influenced by them.
use hifitime::efmt::{consts::RFC2822, Formatter};
use hifitime::leap_seconds::LeapSecondsFile;
use hifitime::{Duration, Epoch, TimeScale, Unit};
use std::str::FromStr;

const NAMES: [&str; 15] = [
    "nothing",
    "leap_seconds(false) of a 1965 epoch",
    "leap_seconds_with(true, a file provider that ends in 2015)",
    "leap_seconds_with(false, the same provider) of a 2016 epoch",
    "conversions of epochs at the ends of the range (saturating intermediates)",
    "Gregorian constructors for the years 0, -1 and 1599",
    "Display of 1799-06-01 and 1950-06-15",
    "Duration::from_total_nanoseconds / from_str of several values",
    "Epoch::from_format_str with two formats in one reused String",
    "RFC 2822 rendering of 2021-01-17",
    "serialization of a Duration and an Epoch into a writer that fails",
    "differences of epochs in different time scales (UTC on the left first)",
    "ET and TDB conversions of two instants mirrored about the reference epochs",
    "UTC -> TAI of 1987-10-14 and TAI -> UTC of 2017-03-01",
    "comparisons of a duration with three units",
];

pub fn count() -> usize {
    NAMES.len()
}
pub fn name(p: usize) -> &'static str {
    NAMES[p % NAMES.len()]
}

struct Failing;
impl std::io::Write for Failing {
    fn write(&mut self, _: &[u8]) -> std::io::Result<usize> {
        Err(std::io::Error::new(std::io::ErrorKind::Other, "sink full"))
    }
    fn flush(&mut self) -> std::io::Result<()> {
        Ok(())
    }
}

fn old_provider() -> Option<LeapSecondsFile> {
    let dir = format!("{}/target/scratch/perturb", crate::report::verif());
    std::fs::create_dir_all(&dir).ok()?;
    let path = format!("{dir}/ends_2015.list");
    let src = std::fs::read_to_string(format!("{}/data/leap-seconds.list", crate::report::repo())).ok()?;
    // every data line but the last two (2015-07-01 and 2017-01-01 removed)
    let data: Vec<&str> = src.lines().filter(|l| !l.trim_start().starts_with('#') && !l.trim().is_empty()).collect();
    let keep = data.len().saturating_sub(2);
    let text: String = data[..keep].iter().map(|l| format!("{l}\n")).collect();
    std::fs::write(&path, text).ok()?;
    LeapSecondsFile::from_path(&path).ok()
}

/// run prelude `p`; panics inside the library are swallowed (the judged operation that follows is what counts)
pub fn run(p: usize) {
    let _ = std::panic::catch_unwind(|| match p % NAMES.len() {
        0 => {}
        1 => {
            let _ = Epoch::from_gregorian_tai_at_noon(1965, 1, 15).leap_seconds(false);
        }
        2 => {
            if let Some(f) = old_provider() {
                let _ = Epoch::from_gregorian_tai_at_noon(2010, 1, 15).leap_seconds_with(true, f);
            }
        }
        3 => {
            if let Some(f) = old_provider() {
                let _ = Epoch::from_gregorian_tai_at_noon(2016, 8, 1).leap_seconds_with(false, f);
            }
        }
        4 => {
            for ts in [TimeScale::GPST, TimeScale::TT, TimeScale::BDT, TimeScale::GST, TimeScale::QZSST] {
                let _ = Epoch::from_duration(Duration::MAX - Unit::Second * 5, ts).to_time_scale(TimeScale::TAI);
                let _ = Epoch::from_duration(Duration::MIN + Unit::Second * 5, ts).to_time_scale(TimeScale::TAI);
            }
        }
        5 => {
            let _ = Epoch::maybe_from_gregorian(0, 3, 1, 0, 0, 0, 0, TimeScale::TAI);
            let _ = Epoch::maybe_from_gregorian(-1, 1, 1, 0, 0, 0, 0, TimeScale::UTC);
            let _ = Epoch::maybe_from_gregorian(1599, 6, 1, 0, 0, 0, 0, TimeScale::TAI);
        }
        6 => {
            let _ = format!("{}", Epoch::from_gregorian_tai_at_midnight(1799, 6, 1));
            let _ = format!("{}", Epoch::from_gregorian_tai_at_noon(1950, 6, 15));
        }
        7 => {
            let _ = Duration::from_total_nanoseconds(-1);
            let _ = Duration::from_total_nanoseconds((1i128 << 48) - 1);
            for t in ["1 d", "2 d", "1 d", "-5 h"] {
                let _ = Duration::from_str(t);
            }
            let _ = 146_101 * Unit::Day;
            let _ = 4_383_007 * Unit::Hour;
            let _ = 146_101 * Unit::Day;
        }
        8 => {
            let mut buf = String::with_capacity(64);
            for (f, t) in [("%Y-%m-%d %H:%M:%S.%f", "2021-12-31 01:02:03.5"), ("%d/%m/%Y %H:%M:%S.%f", "31/12/2021 01:02:03.5"), ("%Y-%m-%d", "2021-12-31"), ("%Y-%d-%m", "2021-31-12")] {
                buf.clear();
                buf.push_str(f);
                let _ = Epoch::from_format_str(t, &buf);
            }
        }
        9 => {
            let _ = format!("{}", Formatter::new(Epoch::from_gregorian_utc_at_noon(2021, 1, 17), RFC2822));
        }
        10 => {
            let _ = serde_json::to_writer(Failing, &(Unit::Day * 1 + Unit::Nanosecond * 99));
            let _ = serde_json::to_writer(Failing, &Epoch::from_gregorian_utc_at_noon(2021, 1, 17));
        }
        11 => {
            let u = Epoch::from_gregorian_utc_at_noon(2016, 12, 31);
            let t = Epoch::from_gregorian_tai_at_noon(2017, 1, 2);
            let _ = u - t;
            let _ = t - t.to_time_scale(TimeScale::TT);
            let _ = t.to_time_scale(TimeScale::ET) - t;
        }
        12 => {
            let x = Unit::Day * 7305 + Unit::Nanosecond * 123_456_789;
            for ts in [TimeScale::ET, TimeScale::TDB] {
                let _ = Epoch::from_duration(x, ts).to_time_scale(TimeScale::TAI);
                let _ = Epoch::from_duration(Unit::Day * 3, ts).to_time_scale(TimeScale::TAI);
                let _ = Epoch::from_duration(-x, ts).to_time_scale(TimeScale::TAI);
            }
            let _ = Epoch::from_tai_duration(x).to_time_scale(TimeScale::TDB);
            let _ = Epoch::from_tai_duration(-x).to_time_scale(TimeScale::TDB);
        }
        13 => {
            let _ = Epoch::from_gregorian_utc_at_noon(1987, 10, 14).to_time_scale(TimeScale::TAI);
            let _ = Epoch::from_gregorian_tai_at_midnight(2017, 3, 1).to_time_scale(TimeScale::UTC);
        }
        _ => {
            let d = Unit::Day * 3;
            let _ = d > Unit::Day;
            let _ = d < Unit::Week;
            let _ = d >= Unit::Day;
        }
    });
}
