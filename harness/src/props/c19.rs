//! C19 strftime-style formatting prints the right field per token; consts match docs.
use super::common::*;
use crate::engine::sweep;
use crate::oracle::civil::*;
use crate::oracle::dur::*;
use crate::oracle::leap::LeapTable;
use crate::oracle::scales;
use crate::oracle::text;
use crate::report::{guard, Local, Report};
use hifitime::efmt::consts::*;
use hifitime::efmt::{Format, Formatter};
use hifitime::{Epoch, TimeScale};
use std::str::FromStr;

pub const TOKENS: [char; 17] = ['Y', 'm', 'd', 'H', 'M', 'S', 'f', 'j', 'A', 'a', 'B', 'b', 'T', 'z', 'y', 'J', 'w'];
pub const SEPS: [char; 7] = ['-', ' ', ':', 'T', ',', '/', '.'];

/// all separator strings of length 0..=2 over SEPS: 1 + 7 + 49 = 57
pub fn sep_string(i: usize) -> String {
    if i == 0 {
        String::new()
    } else if i <= 7 {
        SEPS[i - 1].to_string()
    } else {
        let j = i - 8;
        format!("{}{}", SEPS[j / 7], SEPS[j % 7])
    }
}

/// reference piece for one token; None = the statement does not pin this token's own text (%y)
pub fn piece(tok: char, c: i128, ts: TimeScale, leap: &LeapTable, e: &Epoch) -> Option<String> {
    let (y, m, d, h, mi, s, ns) = text::fields(c, ts);
    let days = days1900(y, m, d);
    Some(match tok {
        'Y' => format!("{y:04}"),
        'm' => format!("{m:02}"),
        'd' => format!("{d:02}"),
        'H' => format!("{h:02}"),
        'M' => format!("{mi:02}"),
        'S' => format!("{s:02}"),
        'f' => format!("{ns:09}"),
        'j' => format!("{:03}", day_of_year(y, m, d)),
        // weekday of the printed date, i.e. of the Gregorian representation in the epoch's own scale
        'A' => text::WEEKDAYS[weekday1900(days) as usize].to_string(),
        'a' => text::WEEKDAYS[weekday1900(days) as usize][..3].to_string(),
        'B' => text::MONTHS[(m - 1) as usize].to_string(),
        'b' => text::MONTHS[(m - 1) as usize][..3].to_string(),
        'T' => text::scale_str(ts).to_string(),
        'z' => "+00:00".to_string(),
        // documented as "year after 2000, on two digits" (and read back by adding 2000): pinned where that is one text,
        // i.e. for the years 2000-2099; outside, the statement and the documentation leave the text open
        'y' if (2000..=2099).contains(&y) => format!("{:02}", y - 2000),
        // not pinned by the statement: compared with the corresponding accessor only
        'J' => format!("{}", e.day_of_year()),
        'w' => {
            // C89 number (Sunday = 0) of the weekday of the printed date, i.e. of the date in the epoch's own time scale
            // ("the corresponding field of the epoch's Gregorian representation in its own time scale", as %A and %a)
            let (y, m, d, _, _, _, _) = text::fields(c, ts);
            format!("{}", (weekday1900(days1900(y, m, d)) + 1) % 7)
        }
        _ => return None,
    })
}

/// format = tokens with separator strings after each token but the last
pub fn j_render(toks: &[char], seps: &[usize], c: i128, ts: TimeScale, leap: &LeapTable, out: &mut Local) {
    let mut fmt = String::new();
    for (i, t) in toks.iter().enumerate() {
        fmt.push('%');
        fmt.push(*t);
        if i + 1 < toks.len() {
            fmt.push_str(&sep_string(seps[i]));
        }
    }
    let args = vec![fmt.clone(), scale_name(ts).to_string(), enc(c)];
    let e = Epoch::from_duration(mk(c), ts);
    let r = guard(|| {
        let f = Format::from_str(&fmt).map_err(|e| format!("{e:?}"))?;
        Ok::<String, String>(format!("{}", Formatter::new(e, f)))
    });
    let has_date = toks.iter().any(|t| "YmdHMSfBbyz".contains(*t));
    let family = format!("{},{}", if has_date { "with-gregorian-token" } else { "no-gregorian-token" }, if toks.iter().any(|t| *t == 'A' || *t == 'a') { "weekday-name" } else { "no-weekday-name" });
    match r {
        Ok(Ok(got)) => {
            let mut want = String::new();
            let mut pinned = true;
            for (i, t) in toks.iter().enumerate() {
                match piece(*t, c, ts, leap, &e) {
                    Some(p) => want.push_str(&p),
                    None => pinned = false,
                }
                if i + 1 < toks.len() {
                    want.push_str(&sep_string(seps[i]));
                }
            }
            if !pinned {
                out.dc(2); // contains %y: rendering not pinned; the call returned
                return;
            }
            if got == want {
                let nt = toks.len() > 1;
                out.ok(2, nt, toks.iter().fold(0u64, |a, t| a.wrapping_mul(17).wrapping_add(TOKENS.iter().position(|x| x == t).unwrap() as u64)) % 4096);
                if out.want_sample(nt) {
                    out.sample("c19.render", args, got, nt);
                }
            } else {
                // classify: which token's piece differs, or separators
                let (y, m, d, _, _, _, _) = text::fields(c, ts);
                let own_wd = weekday1900(days1900(y, m, d));
                let tai_wd = Some(scales::to_tai(c, ts, leap).unwrap_or_else(|| alpha(e.to_tai_duration())).div_euclid(NS_DAY).rem_euclid(7) as i64);
                let mut tai_variant = String::new();
                for (i, t) in toks.iter().enumerate() {
                    let p = match (*t, tai_wd) {
                        ('A', Some(w)) => text::WEEKDAYS[w as usize].to_string(),
                        ('a', Some(w)) => text::WEEKDAYS[w as usize][..3].to_string(),
                        ('w', Some(w)) => format!("{}", (w + 1) % 7),
                        _ => piece(*t, c, ts, leap, &e).unwrap(),
                    };
                    tai_variant.push_str(&p);
                    if i + 1 < toks.len() {
                        tai_variant.push_str(&sep_string(seps[i]));
                    }
                }
                let cls = if Some(own_wd) != tai_wd && got == tai_variant {
                    "weekday-of-TAI-date-printed-next-to-own-scale-date".to_string()
                } else if got.len() > want.len() && got.chars().filter(|ch| !ch.is_alphanumeric()).count() > want.chars().filter(|ch| !ch.is_alphanumeric()).count() {
                    "extra-separators".to_string()
                } else {
                    "piece-or-separator-wrong".to_string()
                };
                out.viol("c19.render", format!("{cls},{family}"), args, want, got);
            }
        }
        Ok(Err(e)) => out.viol("c19.render", format!("format-rejected,{family}"), args, "format accepted".into(), e),
        Err(p) => out.viol("c19.render", format!("panic:{},{family}", p.class()), args, "no panic".into(), format!("{} {}", p.loc, p.msg)),
    }
}

/// predefined formats are identical to the format strings they document; outputs of the consts
pub fn j_consts(k: u64, c: i128, ts: TimeScale, out: &mut Local) {
    let table: [(&str, Format, &str); 9] = [
        ("ISO8601", ISO8601, "%Y-%m-%dT%H:%M:%S.%f %T"),
        ("ISO8601_FLEX", ISO8601_FLEX, "%Y-%m-%dT%H:%M:%S.%f? %T?"),
        ("ISO8601_DATE", ISO8601_DATE, "%Y-%m-%d"),
        ("ISO8601_ORDINAL", ISO8601_ORDINAL, "%Y-%j"),
        ("RFC2822_LONG", RFC2822_LONG, "%A, %d %B %Y %H:%M:%S"),
        ("RFC2822", RFC2822, "%a, %d %b %Y %H:%M:%S"),
        ("RFC3339", RFC3339, "%Y-%m-%dT%H:%M:%S.%f%z"),
        ("ISO8601_STD", ISO8601_STD, "%Y-%m-%dT%H:%M:%S.%f"),
        ("RFC3339_FLEX", RFC3339_FLEX, "%Y-%m-%dT%H:%M:%S.%f?%z"),
    ];
    let (name, konst, doc) = table[k as usize];
    let args = vec![k.to_string(), scale_name(ts).to_string(), enc(c)];
    let e = Epoch::from_duration(mk(c), ts);
    let r = guard(|| (Format::from_str(doc).map(|f| f == konst), format!("{}", Formatter::new(e, konst)), format!("{e}"), e.to_isoformat()));
    let (y, m, d, h, mi, s, ns) = text::fields(c, ts);
    let dt = format!("{y:04}-{m:02}-{d:02}T{h:02}:{mi:02}:{s:02}");
    let wd = weekday1900(days1900(y, m, d)) as usize;
    let want: String = match k {
        0 => format!("{dt}.{ns:09} {}", text::scale_str(ts)),
        1 => format!("{dt}{}{}", if ns != 0 { format!(".{ns:09}") } else { String::new() }, if ts != TimeScale::UTC { format!(" {}", text::scale_str(ts)) } else { String::new() }),
        2 => format!("{y:04}-{m:02}-{d:02}"),
        3 => format!("{y:04}-{:03}", day_of_year(y, m, d)),
        4 => format!("{}, {d:02} {} {y:04} {h:02}:{mi:02}:{s:02}", text::WEEKDAYS[wd], text::MONTHS[(m - 1) as usize]),
        5 => format!("{}, {d:02} {} {y:04} {h:02}:{mi:02}:{s:02}", &text::WEEKDAYS[wd][..3], &text::MONTHS[(m - 1) as usize][..3]),
        6 => format!("{dt}.{ns:09}+00:00"),
        7 => format!("{dt}.{ns:09}"),
        _ => format!("{dt}{}+00:00", if ns != 0 { format!(".{ns:09}") } else { String::new() }),
    };
    match r {
        Ok((same, got, display, isof)) => {
            // Epoch::to_isoformat: the ISO8601_STD rendering cut after six fractional digits (years 0001-9999)
            if k == 7 && (1..=9999).contains(&y) && isof != want[..26] {
                out.viol("c19.consts", "to_isoformat-wrong".into(), args, want[..26].to_string(), isof);
                return;
            }
            // every constant is the format its documentation stands for (six have the string in doc comments / doc
            // tests; RFC3339, RFC3339_FLEX and ISO8601_STD are documented as the standard / as ISO8601 without the scale)
            if same != Ok(true) {
                out.viol("c19.consts", format!("{name}-differs-from-documented-string"), args, format!("Format::from_str({doc:?}) == {name}"), format!("{same:?}"));
            } else if got != want {
                let leap_wd = if (k == 4 || k == 5) && got.len() == want.len() && got[got.find(',').unwrap_or(0)..] == want[want.find(',').unwrap_or(0)..] { "weekday-of-TAI-date-printed-next-to-own-scale-date" } else { "output-wrong" };
                out.viol("c19.consts", format!("{name},{leap_wd}"), args, want, got);
            } else if k == 0 && ns != 0 && got != display {
                // ISO 8601 formatter == default display. For whole seconds the per-token rule (nine-digit %f) and the
                // display rule (fraction only when non-zero) of the statement contradict each other: not judged.
                out.viol("c19.consts", "ISO8601-formatter-differs-from-display".into(), args, display, got);
            } else {
                out.ok(3, ns == 0 || ts != TimeScale::UTC, k * 4 + (ns == 0) as u64 + 2 * (ts == TimeScale::UTC) as u64);
                if k == 0 && ns == 0 {
                    out.dontcare += 1;
                }
                if out.want_sample(true) {
                    out.sample("c19.consts", args, format!("{name}: {got}"), true);
                }
            }
        }
        Err(p) => out.viol("c19.consts", format!("panic:{},{name}", p.class()), args, "no panic".into(), format!("{} {}", p.loc, p.msg)),
    }
}

/// Formatter::to_time_scale(epoch, format, ts) prints the fields of the epoch re-expressed in ts
pub fn j_to_scale(c: i128, src: TimeScale, dst: TimeScale, leap: &LeapTable, out: &mut Local) {
    let args = vec![scale_name(src).to_string(), enc(c), scale_name(dst).to_string()];
    let Some(cd) = scales::to_tai(c, src, leap).and_then(|t| scales::from_tai(t, dst, leap)) else {
        out.dc(0);
        return;
    };
    let e = Epoch::from_duration(mk(c), src);
    let r = guard(|| {
        let f = Format::from_str("%A %Y-%m-%d %j %H:%M:%S.%f %T").unwrap();
        let a = format!("{}", Formatter::to_time_scale(e, f, dst));
        let mut fm = Formatter::new(e.to_time_scale(dst), Format::from_str("%Y-%m-%dT%H:%M:%S%z").unwrap());
        fm.set_timezone(mk(90 * 60 * NS_S));
        (a, format!("{fm}"))
    });
    let (y, m, d, h, mi, s, ns) = text::fields(cd, dst);
    let want = format!("{} {y:04}-{m:02}-{d:02} {:03} {h:02}:{mi:02}:{s:02}.{ns:09} {}", text::WEEKDAYS[weekday1900(days1900(y, m, d)) as usize], day_of_year(y, m, d), text::scale_str(dst));
    // set_timezone only records the offset to print: the fields stay those of the epoch
    let want2 = format!("{y:04}-{m:02}-{d:02}T{h:02}:{mi:02}:{s:02}+01:30");
    match r {
        Ok((a, b)) if a == want && b == want2 => {
            out.ok(2, src != dst, (src as u64) * 9 + dst as u64);
            if out.want_sample(src != dst) {
                out.sample("c19.to_time_scale", args, a, src != dst);
            }
        }
        Ok((a, b)) => out.viol("c19.to_time_scale", format!("wrong,{}->{}", scale_name(src), scale_name(dst)), args, format!("{want} | {want2}"), format!("{a} | {b}")),
        Err(p) => out.viol("c19.to_time_scale", format!("panic:{}", p.class()), args, "no panic".into(), format!("{} {}", p.loc, p.msg)),
    }
}

/// %z with every offset -23:59 .. +23:59
pub fn j_offset(minutes: i128, c: i128, out: &mut Local) {
    let args = vec![minutes.to_string(), enc(c)];
    let e = Epoch::from_duration(mk(c), TimeScale::UTC);
    let off = mk(minutes * 60 * NS_S);
    let r = guard(|| {
        let f = Format::from_str("%Y-%m-%dT%H:%M:%S%z").unwrap();
        let a = format!("{}", Formatter::with_timezone(e, off, f));
        let back = Epoch::from_str(&a).map(|x| (x.time_scale, alpha(x.duration))).map_err(|e| e.to_string());
        // "parsing the output of a format ... with that same format returns the epoch", offsets included
        let same = f.parse(&a).map(|x| (x.time_scale, alpha(x.duration))).map_err(|e| e.to_string());
        (a, back, same)
    });
    let (y, m, d, h, mi, s, _) = text::fields(c + minutes * 60 * NS_S, TimeScale::UTC);
    let (sg, am) = if minutes < 0 { ('-', -minutes) } else { ('+', minutes) };
    let want = format!("{y:04}-{m:02}-{d:02}T{h:02}:{mi:02}:{s:02}{sg}{:02}:{:02}", am / 60, am % 60);
    match r {
        Ok((got, back, same)) => {
            let want_back = Ok((TimeScale::UTC, c - c.rem_euclid(NS_S)));
            if got == want && back == want_back && same != want_back {
                let local = c + minutes * 60 * NS_S;
                let cls = if same == Ok((TimeScale::UTC, local - local.rem_euclid(NS_S))) { "offset-ignored:local-time-read-as-utc" } else if same.is_err() { "rejected" } else { "other-epoch" };
                out.viol("c19.offset", format!("parse-with-the-same-format,{cls}"), args, format!("{want_back:?}"), format!("{same:?} from {got:?}"));
                return;
            }
            if got != want {
                out.viol("c19.offset", format!("text-wrong,{}", if minutes < 0 { "negative" } else { "non-negative" }), args, want, got);
            } else if back != Ok((TimeScale::UTC, c - c.rem_euclid(NS_S))) {
                out.viol("c19.offset", "local-time-with-offset-does-not-parse-back".into(), args, format!("UTC {}", c - c.rem_euclid(NS_S)), format!("{back:?}"));
            } else {
                out.ok(2, minutes != 0, (minutes < 0) as u64 | ((am >= 600) as u64) << 1);
                if out.want_sample(minutes < 0) {
                    out.sample("c19.offset", args, got, minutes < 0);
                }
            }
        }
        Err(p) => out.viol("c19.offset", format!("panic:{}", p.class()), args, "no panic".into(), format!("{} {}", p.loc, p.msg)),
    }
}

/// parse-back: UTC epochs, formats without optional tokens containing the full date and time
pub fn j_parse_back(fmt: &str, c: i128, out: &mut Local) {
    let args = vec![fmt.to_string(), enc(c)];
    let e = Epoch::from_duration(mk(c), TimeScale::UTC);
    let has_f = fmt.contains("%f");
    let want = if has_f { c } else { c - c.rem_euclid(NS_S) };
    if fmt.contains("%y") && !(2000..=2099).contains(&text::fields(c, TimeScale::UTC).0) {
        out.dc(1); // two digits do not hold the year: not "the full date"
        return;
    }
    let r = guard(|| {
        let f = Format::from_str(fmt).map_err(|e| format!("{e:?}"))?;
        let shown = format!("{}", Formatter::new(e, f));
        let a = f.parse(&shown).map(|x| (x.time_scale, alpha(x.duration))).map_err(|e| e.to_string());
        let b = Epoch::from_format_str(&shown, fmt).map(|x| (x.time_scale, alpha(x.duration))).map_err(|e| e.to_string());
        let cc = Epoch::from_str_with_format(&shown, f).map(|x| (x.time_scale, alpha(x.duration))).map_err(|e| e.to_string());
        Ok::<_, String>((shown, a, b, cc))
    });
    let fam = if fmt.contains("%A") || fmt.contains("%a") { "with-weekday-name" } else if fmt.contains("%B") || fmt.contains("%b") { "with-month-name" } else if fmt.contains("%j") { "ordinal" } else { "numeric" };
    let structure = structure_class(fmt);
    match r {
        Ok(Ok((shown, a, b, cc))) => {
            if a != Ok((TimeScale::UTC, want)) {
                let (y, m, d, _, _, _, _) = text::fields(c, TimeScale::UTC);
                let tai_other_day = (c + 37 * NS_S).div_euclid(NS_DAY) != c.div_euclid(NS_DAY) || (c + 10 * NS_S).div_euclid(NS_DAY) != c.div_euclid(NS_DAY);
                let _ = (y, m, d);
                let cls = match &a {
                    Err(msg) if msg.contains("ismatch") && tai_other_day => "weekday-mismatch-near-utc-midnight".to_string(),
                    Err(_) => "own-output-rejected".to_string(),
                    Ok(_) if structure != "plain" => "other-epoch".to_string(),
                    Ok((_, g)) => format!("other-epoch,diff={}", diffclass(*g, want)),
                };
                if structure == "plain" {
                    out.viol("c19.parse_back", format!("{cls},{fam}"), args, format!("UTC {want} from {shown:?}"), format!("{a:?}"));
                } else {
                    out.viol("c19.parse_back", format!("{cls},{structure}"), args, format!("UTC {want} from {shown:?}"), format!("{a:?}"));
                }
            } else if b != a || cc != a {
                out.viol("c19.parse_back", "entry-points-disagree".into(), args, format!("{a:?}"), format!("{b:?} / {cc:?}"));
            } else {
                out.ok(4, true, crate::engine::fnv(fmt.as_bytes()) % 4096);
                if out.want_sample(true) {
                    out.sample("c19.parse_back", args, shown, true);
                }
            }
        }
        Ok(Err(e)) => out.viol("c19.parse_back", "format-rejected".into(), args, "format accepted".into(), e),
        Err(p) => out.viol("c19.parse_back", format!("panic:{},{fam}", p.class()), args, "no panic".into(), format!("{} {}", p.loc, p.msg)),
    }
}

/// (token, separators after it) of a format string made of %X tokens and separator characters
pub fn tokenize(fmt: &str) -> Vec<(char, String)> {
    let mut v: Vec<(char, String)> = vec![];
    let mut it = fmt.chars().peekable();
    while let Some(ch) = it.next() {
        if ch == '%' {
            if let Some(t) = it.next() {
                v.push((t, String::new()));
            }
        } else if let Some(last) = v.last_mut() {
            last.1.push(ch);
        }
    }
    v
}

/// structural class of a format for the parse-back clause (decides the signature of a failure, so that each known
/// weakness of Format::parse is recorded on its own and anything else stays a violation)
pub fn structure_class(fmt: &str) -> &'static str {
    let t = tokenize(fmt);
    let numeric = |c: char| "YmdHMSfjyJw".contains(c);
    let name = |c: char| "AaBb".contains(c);
    let n = t.len();
    for i in 0..n.saturating_sub(1) {
        if numeric(t[i].0) && t[i].1.is_empty() && numeric(t[i + 1].0) {
            return "adjacent-numeric-tokens";
        }
    }
    if let Some(i) = t.iter().position(|x| x.0 == 'z') {
        if i + 1 < n {
            return "%z-not-last";
        }
    }
    if let Some(i) = t.iter().position(|x| x.0 == 'T') {
        if i + 1 < n {
            return "%T-not-last";
        }
    }
    for i in 0..n {
        if name(t[i].0) && ((i + 1 < n && t[i].1.is_empty()) || (i > 0 && t[i - 1].1.is_empty())) {
            return "name-token-without-separator";
        }
    }
    for i in 1..n {
        if name(t[i].0) {
            let prev: Vec<char> = t[i - 1].1.chars().collect();
            if prev.len() == 2 && prev[1] != ' ' && t[i].1.chars().next() != Some(prev[1]) {
                return "name-token-after-two-separators";
            }
        }
    }
    if n > 0 && (t[n - 1].0 == 'B' || t[n - 1].0 == 'b') {
        return "month-name-last";
    }
    "plain"
}

/// formats whose STRUCTURE varies (the families above vary order and separators of the seven numeric tokens): an extra
/// token of every kind at every position, a month name in every position, two-character separators before name tokens,
/// and missing separators
pub fn parse_back_structures() -> Vec<String> {
    let mut v: Vec<String> = vec![];
    let base = ["%Y", "%m", "%d", "%H", "%M", "%S", "%f"];
    let bsep = ["-", "-", " ", ":", ":", "."];
    let join = |toks: &[String], seps: &[String]| -> String {
        let mut s = String::new();
        for (i, t) in toks.iter().enumerate() {
            s.push_str(t);
            if i + 1 < toks.len() {
                s.push_str(&seps[i]);
            }
        }
        s
    };
    // one extra token at each of the 8 positions
    for extra in ["%A", "%a", "%B", "%b", "%j", "%T", "%z"] {
        for pos in 0..=7usize {
            let mut toks: Vec<String> = base.iter().map(|x| x.to_string()).collect();
            let mut seps: Vec<String> = bsep.iter().map(|x| x.to_string()).collect();
            toks.insert(pos, extra.to_string());
            seps.insert(pos.min(6), " ".to_string());
            v.push(join(&toks, &seps));
        }
    }
    // month name instead of the month number, in every position of the date-first and time-first orders
    for name in ["%B", "%b"] {
        for pos in 0..7usize {
            let mut rest: Vec<String> = ["%Y", "%d", "%H", "%M", "%S", "%f"].iter().map(|x| x.to_string()).collect();
            rest.insert(pos.min(6), name.to_string());
            let seps: Vec<String> = (0..6).map(|_| " ".to_string()).collect();
            v.push(join(&rest, &seps));
        }
    }
    // every two-character separator before a name token
    let sc = ['-', ' ', ':', '.', ',', '/'];
    for a in sc {
        for b in sc {
            v.push(format!("%d{a}{b}%B %Y %H:%M:%S.%f"));
            v.push(format!("%Y-%m-%d{a}{b}%A %H:%M:%S.%f"));
            v.push(format!("%Y-%m-%d{a}{b}%H:%M:%S.%f"));
        }
    }
    // missing separators: the canonical format with each one removed, and the ISO 8601 basic forms
    for k in 0..6usize {
        let toks: Vec<String> = base.iter().map(|x| x.to_string()).collect();
        let mut seps: Vec<String> = bsep.iter().map(|x| x.to_string()).collect();
        seps[k] = String::new();
        v.push(join(&toks, &seps));
    }
    v.push("%Y%m%dT%H%M%S.%f".into());
    v.push("%Y%m%d%H%M%S%f".into());
    // a weekday or month name that touches its neighbour ("07Feb2015"): letters against digits, no ambiguity
    for f in [
        "%d%b%Y %H:%M:%S", "%d%B %Y %H:%M:%S", "%d %B%Y %H:%M:%S", "%B%d, %Y %H:%M:%S", "%b%d %Y %H:%M:%S.%f", "%Y %d %b%H:%M:%S", "%Y-%m-%d %a%H:%M:%S", "%A%d %B %Y %H:%M:%S", "%Y-%m-%d%A %H:%M:%S",
        "%Y-%m-%d%a %H:%M:%S.%f",
    ] {
        v.push(f.to_string());
    }
    // the C89 weekday number next to a full date, in every position
    for f in ["%w %Y-%m-%d %H:%M:%S", "%Y-%m-%d %w %H:%M:%S.%f", "%Y-%m-%d %H:%M:%S %w", "%a %w, %d %b %Y %H:%M:%S", "%Y-%j %w %H:%M:%S"] {
        v.push(f.to_string());
    }
    // the two-digit year (judged for the years 2000-2099, where the text is defined)
    for f in ["%y-%m-%d %H:%M:%S", "%d/%m/%y %H:%M:%S.%f", "%a, %d %b %y %H:%M:%S", "%H:%M:%S %d.%m.%y"] {
        v.push(f.to_string());
    }
    v.sort();
    v.dedup();
    v
}

/// 48-epoch sub-lattice: all months, all weekdays, day-of-year 1/59/60/365/366, ns patterns, several scales and years
pub fn epochs() -> Vec<(TimeScale, i128)> {
    epochs_in(None)
}

/// the same (date, time of day) grid; with Some(ts) every cell is given in that scale
pub fn epochs_in(fixed: Option<TimeScale>) -> Vec<(TimeScale, i128)> {
    let mut v = vec![];
    let dates: Vec<(i64, i64, i64)> = vec![
        (2000, 1, 1), (2000, 2, 28), (2000, 2, 29), (2000, 3, 1), (2000, 12, 31), (1999, 12, 31), (2001, 4, 30), (2002, 5, 1), (2003, 6, 15), (2004, 7, 4), (2005, 8, 31), (2006, 9, 9), (2007, 10, 10),
        (2008, 11, 11), (2009, 12, 25), (2017, 1, 7), (2016, 12, 31), (1, 1, 1), (9999, 12, 31), (1899, 12, 31), (1900, 1, 1), (2023, 2, 28),
    ];
    let tods = [0i128, 14 * 3600 * NS_S + 57 * 60 * NS_S + 29 * NS_S + 37, 86_399 * NS_S + 999_999_999, 86_390 * NS_S];
    // all nine scales, cycled over the (date, time of day) grid so that every scale meets every time of day
    let scs = [TimeScale::UTC, TimeScale::TAI, TimeScale::GPST, TimeScale::TDB, TimeScale::TT, TimeScale::ET, TimeScale::GST, TimeScale::BDT, TimeScale::QZSST];
    for (i, (y, m, d)) in dates.iter().enumerate() {
        for (j, tod) in tods.iter().enumerate() {
            let ts = fixed.unwrap_or(scs[(i + j) % 9]);
            if (i + 2 * j) % 2 == 0 || j == 3 {
                v.push((ts, super::c08::expected_count(days1900(*y, *m, *d), *tod, ts)));
            }
        }
    }
    // every scale within its own offset to UTC/TAI of a day, month and year boundary: there the civil date of the
    // epoch differs between its own scale and UTC/TAI, so a token computed in the wrong scale shows
    if fixed.is_none() {
        for ts in scs {
            for (y, m, d) in [(2022i64, 3i64, 1i64), (2021, 1, 1), (2016, 12, 31), (2000, 2, 29)] {
                for tod in [10 * NS_S, 86_390 * NS_S + 5] {
                    v.push((ts, super::c08::expected_count(days1900(y, m, d), tod, ts)));
                }
            }
        }
    }
    v
}

fn permutations(items: &[char]) -> Vec<Vec<char>> {
    if items.len() <= 1 {
        return vec![items.to_vec()];
    }
    let mut out = vec![];
    for i in 0..items.len() {
        let mut rest = items.to_vec();
        let x = rest.remove(i);
        for mut p in permutations(&rest) {
            p.insert(0, x);
            out.push(p);
        }
    }
    out
}

pub fn parse_back_formats(q: bool) -> Vec<String> {
    let mut v = vec![];
    // all 5040 orders of the seven numeric tokens with single non-digit separators
    let seps = ['-', ' ', ':', 'T', '/', ','];
    for (k, p) in permutations(&['Y', 'm', 'd', 'H', 'M', 'S', 'f']).into_iter().enumerate() {
        if q && k % 7 != 0 {
            continue;
        }
        let mut s = String::new();
        for (i, t) in p.iter().enumerate() {
            s.push('%');
            s.push(*t);
            if i < 6 {
                s.push(seps[(i + k) % 6]);
            }
        }
        v.push(s);
    }
    // all separator assignments for the canonical order (6 separators ^ 6 positions)
    let n = 6usize.pow(6);
    for k in 0..n {
        if q && k % 11 != 0 {
            continue;
        }
        let mut s = String::new();
        let mut r = k;
        for (i, t) in ['Y', 'm', 'd', 'H', 'M', 'S', 'f'].iter().enumerate() {
            s.push('%');
            s.push(*t);
            if i < 6 {
                s.push(seps[r % 6]);
                r /= 6;
            }
        }
        v.push(s);
    }
    for f in [
        "%A, %d %B %Y %H:%M:%S", "%a, %d %b %Y %H:%M:%S", "%Y-%m-%dT%H:%M:%S.%f %T", "%Y-%m-%dT%H:%M:%S.%f", "%Y-%jT%H:%M:%S", "%Y-%j %H:%M:%S.%f", "%d %B %Y %H:%M:%S", "%B %d, %Y %H:%M:%S.%f", "%A %Y-%m-%d %H:%M:%S %T",
        "%Y/%m/%d %H.%M.%S", "%d.%m.%Y %H:%M:%S", "%H:%M:%S %d-%m-%Y", "%Y-%m-%dT%H:%M:%S.%f%z", "%a %b %d %H:%M:%S %Y",
    ] {
        v.push(f.to_string());
    }
    v.sort();
    v.dedup();
    v
}

pub fn run(rep: &mut Report) {
    let q = false; // one parameter set for both tiers (2 s)
    let leap = LeapTable::load().expect("leap").0;
    let eps = epochs();
    let ne = eps.len() as u64;
    rep.bound("epochs", ne);
    rep.rule = "formats: all token sequences of length 1 and 2 over the 17 tokens with all 57 separator strings of 0-2 characters over {'-',' ',':','T',',','/','.'} (16 490 formats), length 3 with separators over {'-',' ',''} (thorough: all 4 913 x 9; quick: every 5th), rotations of two 16-token formats; x a 120-epoch sub-lattice (every scale within 10 s of a day/month/year boundary; all months, all weekdays, day of year 1/59/60/365/366, first/last nanosecond, 9 scales, years 0001/1899/1900/9999); the nine predefined constants x epochs; %z with all 2 879 offsets; parse-back of ~52 000 full date-time formats on UTC epochs. Thorough tier in addition: every 3-token format with all 57 x 57 separator pairs, every 4-token format with separators over {'', '-', ' '}, and four many-token formats plus the nine constants on a dense calendar (every day of 1999-2001, 2016, 2017, 2024 x 9 scales x 4 times of day). Oracle: concatenation of per-token reference pieces and the format's own separators.".into();
    rep.assumptions = vec![
        "%y is pinned for the years 2000-2099 (two digits) and a don't-care elsewhere; %J is compared with the day_of_year() accessor; %w is the C89 number (Sunday = 0) of the weekday of the printed date".into(),
        "ISO 8601 formatter == Display is judged for non-zero nanoseconds only: for whole seconds the statement's per-token rule (nine-digit %f) and its display rule (fraction only when non-zero) contradict each other".into(),
    ];
    // length 1 and 2
    sweep(rep, "c19.render[len1]", 17 * ne, |i, out| {
        let (ts, c) = eps[(i % ne) as usize];
        j_render(&[TOKENS[(i / ne) as usize]], &[], c, ts, &leap, out)
    });
    sweep(rep, "c19.render[len2]", 17 * 17 * 57 * ne, |i, out| {
        let (ts, c) = eps[(i % ne) as usize];
        let j = i / ne;
        j_render(&[TOKENS[(j / (17 * 57)) as usize], TOKENS[((j / 57) % 17) as usize]], &[(j % 57) as usize], c, ts, &leap, out)
    });
    // length 3, separators over {"", "-", " "} (indices 0, 1, 2)
    let stride = if q { 5 } else { 1 };
    let n3 = 17u64.pow(3) * 9;
    let e3: Vec<(TimeScale, i128)> = eps.iter().copied().step_by(if q { 6 } else { 2 }).collect();
    let ne3 = e3.len() as u64;
    sweep(rep, "c19.render[len3]", n3 / stride * ne3, |i, out| {
        let (ts, c) = e3[(i % ne3) as usize];
        let j = (i / ne3) * stride;
        let s = (j % 9) as usize;
        let t = j / 9;
        j_render(&[TOKENS[(t / 289) as usize], TOKENS[((t / 17) % 17) as usize], TOKENS[(t % 17) as usize]], &[s / 3, s % 3], c, ts, &leap, out)
    });
    // 16-token rotations (every token but one)
    let base_a: Vec<char> = TOKENS.iter().copied().filter(|t| *t != 'y').collect();
    let base_b: Vec<char> = TOKENS.iter().rev().copied().filter(|t| *t != 'y').collect();
    sweep(rep, "c19.render[len16]", 2 * 16 * ne, |i, out| {
        let (ts, c) = eps[(i % ne) as usize];
        let j = (i / ne) as usize;
        let base = if j < 16 { &base_a } else { &base_b };
        let rot: Vec<char> = (0..16).map(|k| base[(k + j) % 16]).collect();
        let seps: Vec<usize> = (0..15).map(|k| [1usize, 2, 3, 9, 0, 20][(k + j) % 6]).collect();
        j_render(&rot, &seps, c, ts, &leap, out)
    });
    if !rep.quick() {
        // thorough only: every 3-token format with EVERY pair of separator strings (57 x 57), every 4-token format with
        // separators over {"", "-", " "}, and a dense calendar (every day of six years, nine scales, four times of day)
        // through one format per token
        let e6: Vec<(TimeScale, i128)> = eps.iter().copied().step_by(19).collect();
        let ne6 = e6.len() as u64;
        rep.bound("len3_all_separator_pairs", 4913u64 * 57 * 57);
        sweep(rep, "c19.render[len3,all-separators]", 4913 * 57 * 57 * ne6, |i, out| {
            let (ts, c) = e6[(i % ne6) as usize];
            let j = i / ne6;
            let (t, s2, s1) = (j / 3249, (j / 57) % 57, j % 57);
            j_render(&[TOKENS[(t / 289) as usize], TOKENS[((t / 17) % 17) as usize], TOKENS[(t % 17) as usize]], &[s1 as usize, s2 as usize], c, ts, &leap, out)
        });
        let e4: Vec<(TimeScale, i128)> = eps.iter().copied().step_by(13).collect();
        let ne4 = e4.len() as u64;
        rep.bound("len4_formats", 17u64.pow(4) * 27);
        sweep(rep, "c19.render[len4]", 17u64.pow(4) * 27 * ne4, |i, out| {
            let (ts, c) = e4[(i % ne4) as usize];
            let j = i / ne4;
            let (t, s) = (j / 27, (j % 27) as usize);
            let tk = |k: u32| TOKENS[((t / 17u64.pow(k)) % 17) as usize];
            j_render(&[tk(3), tk(2), tk(1), tk(0)], &[s / 9, (s / 3) % 3, s % 3], c, ts, &leap, out)
        });
        let scs = [TimeScale::UTC, TimeScale::TAI, TimeScale::GPST, TimeScale::TDB, TimeScale::TT, TimeScale::ET, TimeScale::GST, TimeScale::BDT, TimeScale::QZSST];
        let mut dense: Vec<(TimeScale, i128)> = vec![];
        for y in [1999i64, 2000, 2001, 2016, 2017, 2024] {
            let d0 = days1900(y, 1, 1);
            let n = days1900(y + 1, 1, 1) - d0;
            for d in 0..n {
                for ts in scs {
                    for tod in [0i128, 11 * NS_S, 86_399 * NS_S + 999_999_999, 43_200 * NS_S + 500_000_000] {
                        dense.push((ts, super::c08::expected_count(d0 + d, tod, ts)));
                    }
                }
            }
        }
        let nd = dense.len() as u64;
        rep.bound("dense_calendar_epochs", nd);
        let dfmts: [(&[char], &[usize]); 4] = [(&['Y', 'm', 'd', 'H', 'M', 'S', 'f', 'T'], &[1, 1, 4, 3, 3, 7, 2]), (&['A', 'd', 'B', 'Y', 'j', 'w'], &[12, 2, 2, 2, 2]), (&['a', 'b', 'y', 'J'], &[2, 2, 2]), (&['j', 'Y', 'A', 'z'], &[1, 2, 0])];
        sweep(rep, "c19.render[dense-calendar]", 4 * nd, |i, out| {
            let (ts, c) = dense[(i % nd) as usize];
            let (tk, sp) = dfmts[(i / nd) as usize];
            j_render(tk, sp, c, ts, &leap, out)
        });
        sweep(rep, "c19.consts[dense-calendar]", 9 * nd, |i, out| {
            let (ts, c) = dense[(i % nd) as usize];
            j_consts(i / nd, c, ts, out)
        });
    }
    sweep(rep, "c19.consts", 9 * ne, |i, out| {
        let (ts, c) = eps[(i % ne) as usize];
        j_consts(i / ne, c, ts, out)
    });
    // sub-second digit groups: every (ms, us, ns) group combination over {000, 001, 250, 999}, three scales, through the
    // nine constants (the optional %f? of the FLEX formats is printed exactly when the sub-second part is non-zero)
    // and through %f / %S.%f
    let groups = [0i128, 1, 250, 999];
    let mut sub: Vec<(TimeScale, i128)> = vec![];
    for (k, ts) in [TimeScale::UTC, TimeScale::TAI, TimeScale::GPST].into_iter().enumerate() {
        for g in 0..64usize {
            let ns = groups[g / 16] * 1_000_000 + groups[(g / 4) % 4] * 1000 + groups[g % 4];
            sub.push((ts, super::c08::expected_count(days1900(2015, 2, 7 + k as i64), (11 * 3600 + 22 * 60 + 33) * NS_S + ns, ts)));
        }
    }
    let nsb = sub.len() as u64;
    rep.bound("sub_second_lattice", nsb);
    sweep(rep, "c19.consts[subsec]", 9 * nsb, |i, out| {
        let (ts, c) = sub[(i % nsb) as usize];
        j_consts(i / nsb, c, ts, out)
    });
    sweep(rep, "c19.render[subsec]", 2 * nsb, |i, out| {
        let (ts, c) = sub[(i % nsb) as usize];
        if i / nsb == 0 {
            j_render(&['f'], &[], c, ts, &leap, out)
        } else {
            j_render(&['S', 'f'], &[7], c, ts, &leap, out)
        }
    });
    let oc = [eps[0].1, super::c08::expected_count(days1900(2016, 12, 31), 86_399 * NS_S, TimeScale::UTC), super::c08::expected_count(days1900(2000, 2, 29), 12 * 3600 * NS_S + 37, TimeScale::UTC)];
    sweep(rep, "c19.offset", 2879 * 3, |i, out| j_offset((i / 3) as i128 - 1439, oc[(i % 3) as usize], out));
    let ts7 = [TimeScale::TAI, TimeScale::TT, TimeScale::UTC, TimeScale::GPST, TimeScale::GST, TimeScale::BDT, TimeScale::QZSST];
    let ex: Vec<(TimeScale, i128)> = eps.iter().copied().filter(|(t, _)| ts7.contains(t)).collect();
    let nx = ex.len() as u64;
    sweep(rep, "c19.to_time_scale", nx * 7, |i, out| {
        let (src, c) = ex[(i / 7) as usize];
        j_to_scale(c, src, ts7[(i % 7) as usize], &leap, out)
    });
    let pf = parse_back_formats(q);
    rep.bound("parse_back_formats", pf.len() as u64);
    let utc: Vec<i128> = epochs_in(Some(TimeScale::UTC)).iter().step_by(3).map(|(_, c)| *c).chain([super::c08::expected_count(days1900(2017, 1, 7), 86_390 * NS_S, TimeScale::UTC), super::c08::expected_count(days1900(2024, 2, 29), 3661 * NS_S + 5, TimeScale::UTC)]).collect();
    let nu = utc.len() as u64;
    // order independence (depth-2 operation sequences on one thread): rendering with the nine constants, rendering with
    // offsets and parse-back with six formats, of six epochs, in every order (a Formatter / Format that keeps state)
    {
        let oe: Vec<(TimeScale, i128)> = eps.iter().copied().step_by(23).take(6).collect();
        let of = ["%Y-%m-%dT%H:%M:%S.%f", "%a, %d %b %Y %H:%M:%S", "%Y-%j %H:%M:%S.%f", "%d %B %Y %H:%M:%S", "%H:%M:%S %d-%m-%Y", "%Y-%m-%dT%H:%M:%S.%f%z"];
        let wdays: Vec<i128> = [(2021i64, 1i64, 1i64), (2021, 1, 17), (2021, 2, 16), (2021, 3, 16), (2021, 3, 1), (2024, 2, 29)].iter().map(|(y, m, d)| super::c08::expected_count(days1900(*y, *m, *d), 43_200 * NS_S, TimeScale::UTC)).collect();
        crate::engine::order_pairs(rep, "c19.order", 9 * 6 + 6 * 6 + 12 + 6 + 4, |i, out| {
            if i >= 108 {
                // the same format text written into ONE re-used buffer (same address, same length, other content)
                thread_local! { static BUF: std::cell::RefCell<String> = std::cell::RefCell::new(String::with_capacity(64)); }
                let f = ["%Y-%m-%d %H:%M:%S.%f", "%d/%m/%Y %H:%M:%S.%f", "%Y-%m-%dT%H:%M:%S", "%d %m %YT%H:%M:%S"][(i - 108) as usize];
                return BUF.with(|b| {
                    let mut b = b.borrow_mut();
                    b.clear();
                    b.push_str(f);
                    j_parse_back(&b, wdays[(i % 6) as usize], out)
                });
            }
            if i >= 102 {
                return j_render(&['A', 'w', 'Y', 'm', 'd'], &[2, 2, 1, 1], wdays[(i - 102) as usize], TimeScale::UTC, &leap, out);
            }
            if i < 54 {
                let (ts, c) = oe[(i % 6) as usize];
                j_consts(i / 6, c, ts, out)
            } else if i < 90 {
                let j = i - 54;
                j_parse_back(of[(j / 6) as usize], utc[((j % 6) * 7 % nu) as usize], out)
            } else {
                j_offset([-719i128, -30, -1, 0, 1, 330][((i - 90) % 6) as usize], oc[((i - 90) / 6 % 3) as usize], out)
            }
        });
    }
    // order independence over a whole calendar year: the weekday / date rendering of every day of 2021 after every other day
    // (133 225 ordered pairs): a memo whose key packs year, month and day with overlapping or truncated fields aliases two
    // dates of one year, whatever their distance
    {
        let d0 = days1900(2021, 1, 1);
        let lp = &leap;
        crate::engine::order_pairs(rep, "c19.order[year]", 365, |i, out| j_render(&['A', 'w', 'Y', 'm', 'd', 'j'], &[2, 2, 1, 1, 2], super::c08::expected_count(d0 + i as i64, 43_200 * NS_S, TimeScale::UTC), TimeScale::UTC, lp, out));
    }
    sweep(rep, "c19.parse_back", pf.len() as u64 * nu, |i, out| j_parse_back(&pf[(i / nu) as usize], utc[(i % nu) as usize], out));
    // sub-second variety: the lattice above carries few nanosecond patterns; every format family with %f is driven over
    // a spread of 1 500 (time of day, nanosecond) pairs on three days - a float intermediate in one parser branch shows
    // for a few percent of such values only
    let mut spread: Vec<i128> = vec![];
    for (y, m, d) in [(2021i64, 1i64, 11i64), (2024, 2, 29), (2016, 12, 31)] {
        for k in 0..500i128 {
            let tod = (k * 997 * 7 + 2117) % 86_400;
            let ns = match k % 10 {
                0 => 73_000_000,
                1 => 1,
                2 => 999_999_999,
                _ => (k * k * 7_919 + k * 123_456_789) % 1_000_000_000,
            };
            spread.push(super::c08::expected_count(days1900(y, m, d), tod * NS_S + ns, TimeScale::UTC));
        }
    }
    let sf = ["%Y-%j %H:%M:%S.%f", "%Y-%jT%H:%M:%S.%f", "%Y-%m-%dT%H:%M:%S.%f", "%d %B %Y %H:%M:%S.%f", "%a, %d %b %Y %H:%M:%S.%f", "%H:%M:%S.%f %j %Y", "%Y-%m-%dT%H:%M:%S.%f%z", "%f %S %M %H %d %m %Y"];
    let nsp = spread.len() as u64;
    rep.bound("parse_back_subsecond_spread", nsp);
    sweep(rep, "c19.parse_back[subsec]", sf.len() as u64 * nsp, |i, out| j_parse_back(sf[(i / nsp) as usize], spread[(i % nsp) as usize], out));
    // interior scan (round 8): evenly spread, unremarkable (day, nanosecond of day) pairs over years 0001-9999 - every token through
    // four formats in nine scales, and the parse-back clause for UTC epochs with unremarkable nanosecond fields
    {
        let nsc: u64 = if rep.quick() { 60_000 } else { 2_000_000 };
        rep.bound("interior_scan_points", nsc);
        let (d0, d1) = (days1900(1, 1, 1) as i128, days1900(9999, 12, 31) as i128);
        let scs = [TimeScale::UTC, TimeScale::TAI, TimeScale::GPST, TimeScale::TDB, TimeScale::TT, TimeScale::ET, TimeScale::GST, TimeScale::BDT, TimeScale::QZSST];
        let dfmts: [(&[char], &[usize]); 4] = [(&['Y', 'm', 'd', 'H', 'M', 'S', 'f', 'T'], &[1, 1, 4, 3, 3, 7, 2]), (&['A', 'd', 'B', 'Y', 'j', 'w'], &[12, 2, 2, 2, 2]), (&['a', 'b', 'y', 'J'], &[2, 2, 2]), (&['j', 'Y', 'A', 'z'], &[1, 2, 0])];
        let lp = &leap;
        sweep(rep, "c19.scan_render", 36 * nsc, |i, out| {
            let k = i / 36;
            let ts = scs[(i % 9) as usize];
            let c = super::c08::expected_count(crate::lattice::scan_point(k, 1, d0, d1) as i64, crate::lattice::scan_point(k, 2, 0, NS_DAY - 1), ts);
            let (tk, sp) = dfmts[((i / 9) % 4) as usize];
            j_render(tk, sp, c, ts, lp, out)
        });
        sweep(rep, "c19.scan_parse_back", sf.len() as u64 * 2 * nsc, |i, out| {
            let k = i / sf.len() as u64;
            // years 1972-2100 (leap seconds behind, none ahead) and the whole four-digit range alternate
            let day = if k % 2 == 0 { crate::lattice::scan_point(k, 3, days1900(1972, 1, 2) as i128, days1900(2100, 1, 1) as i128) } else { crate::lattice::scan_point(k, 4, d0, d1) };
            let c = super::c08::expected_count(day as i64, crate::lattice::scan_point(k, 5, 0, NS_DAY - 1), TimeScale::UTC);
            j_parse_back(sf[(i % sf.len() as u64) as usize], c, out)
        });
    }
    let ps = parse_back_structures();
    rep.bound("parse_back_structures", ps.len() as u64);
    sweep(rep, "c19.parse_back[structures]", ps.len() as u64 * nu, |i, out| j_parse_back(&ps[(i / nu) as usize], utc[(i % nu) as usize], out));
}

pub fn replay(check: &str, a: &[String], out: &mut Local) -> bool {
    let leap = LeapTable::load().expect("leap").0;
    match check {
        "c19.render" => {
            // re-derive tokens and separators from the format string
            let mut toks = vec![];
            let mut seps = vec![];
            for part in a[0].split('%').skip(1) {
                let mut ch = part.chars();
                toks.push(ch.next().unwrap());
                let rest: String = ch.collect();
                let idx = (0..57).find(|i| sep_string(*i) == rest).unwrap_or(0);
                seps.push(idx);
            }
            seps.pop();
            j_render(&toks, &seps, p128(&a[2]), scale_from(&a[1]), &leap, out)
        }
        "c19.consts" => j_consts(pu64(&a[0]), p128(&a[2]), scale_from(&a[1]), out),
        "c19.offset" => j_offset(p128(&a[0]), p128(&a[1]), out),
        "c19.to_time_scale" => j_to_scale(p128(&a[1]), scale_from(&a[0]), scale_from(&a[2]), &leap, out),
        "c19.parse_back" => j_parse_back(&a[0], p128(&a[1]), out),
        _ => return false,
    }
    true
}
