//! C06 UTC <-> TAI follows the IERS leap-second table exactly, in both directions.
use super::common::*;
use crate::engine::sweep;
use crate::lattice;
use crate::oracle::dur::*;
use crate::oracle::civil::days1900;
use crate::oracle::leap::*;
use crate::report::{guard, Local, Report};
use hifitime::leap_seconds::{LatestLeapSeconds, LeapSecond, LeapSecondsFile};
use hifitime::{Epoch, TimeScale};

pub fn j_table(which: u64, leap: &LeapTable, out: &mut Local) {
    let args = vec![which.to_string()];
    let r = guard(|| -> Result<String, String> {
        match which {
            0 => {
                // forward iteration: 42 entries, IERS-flagged ones are exactly the IERS list
                let all: Vec<LeapSecond> = LatestLeapSeconds::default().collect();
                let iers: Vec<(i64, i64)> = all.iter().filter(|l| l.announced_by_iers).map(|l| (l.timestamp_tai_s as i64, l.delta_at as i64)).collect();
                if iers != leap.entries {
                    return Err(format!("IERS-flagged entries differ from the IERS list: {iers:?}"));
                }
                if all.iter().filter(|l| l.announced_by_iers).any(|l| l.timestamp_tai_s.fract() != 0.0 || l.delta_at.fract() != 0.0) {
                    return Err("non-integral IERS entry".into());
                }
                // entries not announced by IERS (the SOFA pre-1972 values today): the statement only requires that they
                // are not IERS entries, i.e. unflagged and before 1972-01-01; their number and values are not pinned
                let other: Vec<(i64, f64)> = all.iter().filter(|l| !l.announced_by_iers).map(|l| (l.timestamp_tai_s as i64, l.delta_at)).collect();
                if other.iter().any(|(ts, d)| *ts >= leap.entries[0].0 || *d >= 10.0 || *d < 0.0) {
                    return Err(format!("an entry not announced by IERS lies in the IERS era or carries an IERS-sized offset: {other:?}"));
                }
                // sorted by timestamp, all non-IERS entries before 1972
                if all.windows(2).any(|w| w[0].timestamp_tai_s >= w[1].timestamp_tai_s) {
                    return Err("table not strictly increasing".into());
                }
                Ok(format!("{} entries, {} IERS", all.len(), iers.len()))
            }
            1 => {
                // reverse iteration and indexing agree with forward iteration
                let fwd: Vec<LeapSecond> = LatestLeapSeconds::default().collect();
                let mut rev: Vec<LeapSecond> = LatestLeapSeconds::default().rev().collect();
                rev.reverse();
                if fwd != rev {
                    return Err("reverse iteration is not the reverse of forward iteration".into());
                }
                let t = LatestLeapSeconds::default();
                for (i, l) in fwd.iter().enumerate() {
                    if t[i] != *l {
                        return Err(format!("index {i} differs from iteration"));
                    }
                }
                Ok("reverse + index consistent".into())
            }
            3 => {
                // forward adaptors on a partially consumed iterator: positions are relative to what was already yielded
                // (nth, skip, step_by, take, count, last are all defined through next(); an override must agree)
                let v: Vec<LeapSecond> = LatestLeapSeconds::default().collect();
                let n = v.len();
                for used in [0usize, 1, 2, 5, 14, n - 1, n] {
                    for k in [0usize, 1, 2, 3, 7, 27, 41, 42, 100] {
                        let fresh = || {
                            let mut it = LatestLeapSeconds::default();
                            for _ in 0..used {
                                it.next();
                            }
                            it
                        };
                        let want_nth = v.get(used + k).copied();
                        if fresh().nth(k) != want_nth {
                            return Err(format!("after {used} items nth({k}) is not item {}", used + k));
                        }
                        if fresh().skip(k).next() != want_nth {
                            return Err(format!("after {used} items skip({k}).next() is not item {}", used + k));
                        }
                        let mut it = fresh();
                        let first = it.nth(k);
                        if first.is_some() && it.next() != v.get(used + k + 1).copied() {
                            return Err(format!("after {used} items nth({k}) leaves the iterator at the wrong position"));
                        }
                        if fresh().count() != n.saturating_sub(used) || fresh().last() != if used < n { v.last().copied() } else { None } {
                            return Err(format!("after {used} items count()/last() are wrong"));
                        }
                        if k >= 1 && k <= 7 {
                            let stepped: Vec<LeapSecond> = fresh().step_by(k).take(n + 1).collect();
                            let want: Vec<LeapSecond> = v.iter().skip(used).step_by(k).copied().collect();
                            if stepped != want {
                                return Err(format!("after {used} items step_by({k}) yields {} items, not the expected {}", stepped.len(), want.len()));
                            }
                            let taken: Vec<LeapSecond> = fresh().take(k).collect();
                            if taken != v.iter().skip(used).take(k).copied().collect::<Vec<_>>() {
                                return Err(format!("after {used} items take({k}) differs"));
                            }
                        }
                    }
                }
                // the same on the file provider
                let f = LeapSecondsFile::from_path(format!("{}/data/leap-seconds.list", crate::report::repo())).map_err(|e| format!("{e}"))?;
                let fv: Vec<LeapSecond> = f.clone().collect();
                for used in [0usize, 1, 5, 27, 28] {
                    for k in [0usize, 1, 3, 27, 28] {
                        let mut it = f.clone();
                        for _ in 0..used {
                            it.next();
                        }
                        if it.nth(k) != fv.get(used + k).copied() {
                            return Err(format!("file provider: after {used} items nth({k}) is not item {}", used + k));
                        }
                        let mut it = f.clone();
                        for _ in 0..used {
                            it.next();
                        }
                        let stepped: Vec<LeapSecond> = it.step_by(k + 1).take(40).collect();
                        if stepped != fv.iter().skip(used).step_by(k + 1).copied().collect::<Vec<_>>() {
                            return Err(format!("file provider: after {used} items step_by({}) differs", k + 1));
                        }
                    }
                }
                Ok("adaptors on partially consumed iterators consistent".into())
            }
            _ => {
                // the shipped IERS file through the file provider
                let f = LeapSecondsFile::from_path(format!("{}/data/leap-seconds.list", crate::report::repo())).map_err(|e| format!("{e}"))?;
                let got: Vec<(i64, i64, bool)> = f.clone().map(|l| (l.timestamp_tai_s as i64, l.delta_at as i64, l.announced_by_iers)).collect();
                let want: Vec<(i64, i64, bool)> = leap.entries.iter().map(|(a, b)| (*a, *b, true)).collect();
                if got != want {
                    return Err(format!("file provider differs from the IERS list: {got:?}"));
                }
                let mut rev: Vec<(i64, i64, bool)> = f.clone().rev().map(|l| (l.timestamp_tai_s as i64, l.delta_at as i64, l.announced_by_iers)).collect();
                rev.reverse();
                if rev != want {
                    return Err("file provider reverse iteration differs".into());
                }
                for (i, w) in want.iter().enumerate() {
                    if (f[i].timestamp_tai_s as i64, f[i].delta_at as i64) != (w.0, w.1) {
                        return Err(format!("file provider index {i} differs"));
                    }
                }
                Ok("file provider == IERS list".into())
            }
        }
    });
    match r {
        Ok(Ok(note)) => {
            out.ok(42, true, which);
            out.sample("c06.table", args, note, true);
        }
        Ok(Err(e)) => out.viol("c06.table", format!("table-{which}-wrong"), args, "the 28 IERS entries (+ unflagged pre-1972 entries)".into(), e),
        Err(p) => out.viol("c06.table", format!("panic:{}", p.class()), args, "no panic".into(), format!("{} {}", p.loc, p.msg)),
    }
}

fn near_entry(leap: &LeapTable, v: i128, w: i128) -> Option<usize> {
    leap.entries.iter().position(|(ts, _)| (v - *ts as i128 * NS).abs() <= w * NS)
}

/// UTC -> TAI exact, round trip identical
pub fn j_utc(u: i128, leap: &LeapTable, out: &mut Local) {
    let want = leap.utc_to_tai(u);
    let args = vec![enc(u)];
    let r = guard(|| {
        // (on alternate lattice points through the named constructor)
        let e = if u % 2 == 0 { Epoch::from_duration(mk(u), TimeScale::UTC) } else { Epoch::from_utc_duration(mk(u)) };
        let t = e.to_time_scale(TimeScale::TAI);
        (t, e.to_tai_duration(), t.to_time_scale(TimeScale::UTC), e.to_utc_duration())
    });
    let ne = near_entry(leap, u, 90);
    let nt = ne.is_some();
    let pos = |x: i128| -> String {
        match near_entry(leap, x, 90) {
            Some(i) => {
                let ts = leap.entries[i].0 as i128 * NS;
                let d = x - ts;
                if d >= 0 {
                    "at/after-entry".into()
                } else if -d <= 1000 {
                    "within-1us-before-entry".into()
                } else {
                    "before-entry".into()
                }
            }
            None => "far-from-entries".into(),
        }
    };
    match r {
        Ok((t, td, back, ud)) => {
            if t.time_scale != TimeScale::TAI || alpha(t.duration) != want || alpha(td) != want {
                out.viol("c06.utc_to_tai", format!("offset-wrong,diff={},{}", diffclass(alpha(t.duration), want), pos(u)), args, format!("{} (TAI-UTC = {} s)", describe(want), (want - u) / NS), format!("{} / to_tai_duration {}", describe(alpha(t.duration)), alpha(td)));
            } else if back.time_scale != TimeScale::UTC || alpha(back.duration) != u {
                let rel = match near_entry(leap, u, 90) {
                    Some(i) => {
                        let ts = leap.entries[i].0 as i128 * NS;
                        if u < ts && ts - u <= leap.entries[i].1 as i128 * NS { "within-offset-seconds-before-entry" } else { "near-entry" }
                    }
                    None => "far-from-entries",
                };
                out.viol("c06.round_trip", format!("utc->tai->utc,diff={},{rel}", diffclass(alpha(back.duration), u)), args, describe(u), describe(alpha(back.duration)));
            } else if alpha(ud) != u {
                out.viol("c06.utc_to_tai", "to_utc_duration-of-utc-epoch-differs".into(), args, describe(u), describe(alpha(ud)));
            } else {
                out.ok(4, nt, ((want - u) / NS) as u64);
                if out.want_sample(nt) {
                    out.sample("c06.utc_to_tai", args, format!("UTC {} -> TAI {} (TAI-UTC = {} s), and back", u, want, (want - u) / NS), nt);
                }
            }
        }
        Err(p) => out.viol("c06.utc_to_tai", format!("panic:{}", p.class()), args, "no panic".into(), format!("{} {}", p.loc, p.msg)),
    }
}

/// TAI -> UTC: exact where the instant has a UTC count; bounded inside an inserted interval
pub fn j_tai(t: i128, leap: &LeapTable, out: &mut Local) {
    let args = vec![enc(t)];
    let r = guard(|| {
        let e = Epoch::from_duration(mk(t), TimeScale::TAI);
        (e.to_time_scale(TimeScale::UTC), e.to_utc_duration())
    });
    match r {
        Ok((u, ud)) => {
            let g = alpha(u.duration);
            if u.time_scale != TimeScale::UTC || alpha(ud) != g {
                out.viol("c06.tai_to_utc", "label-or-accessor-differs".into(), args, "UTC".into(), format!("{} {} / {}", scale_name(u.time_scale), g, alpha(ud)));
                return;
            }
            match leap.tai_to_utc(t) {
                Some(want) => {
                    let nt = near_entry(leap, t, 120).is_some();
                    if g == want {
                        out.ok(2, nt, ((t - want) / NS) as u64);
                        if out.want_sample(nt) {
                            out.sample("c06.tai_to_utc", args, format!("TAI {t} -> UTC {want} (TAI-UTC = {} s)", (t - want) / NS), nt);
                        }
                    } else {
                        let rel = match near_entry(leap, t, 120) {
                            Some(i) => {
                                let ts = leap.entries[i].0 as i128 * NS;
                                let d = leap.entries[i].1 as i128 * NS;
                                if t >= ts && t < ts + d { "tai-count-between-entry-timestamp-and-its-tai-instant" } else { "near-entry" }
                            }
                            None => "far-from-entries",
                        };
                        out.viol("c06.tai_to_utc", format!("offset-wrong,diff={},{rel}", diffclass(g, want)), args, format!("{} (TAI-UTC = {} s)", describe(want), (t - want) / NS), format!("{} (TAI-UTC = {} s)", describe(g), (t - g) / NS));
                    }
                }
                None => {
                    // inside an inserted interval [ts + prev, ts + new) no UTC count denotes this instant; the statement
                    // says "TAI to UTC never goes backwards": the instant just before the interval maps to ts - 1 ns
                    // and the instant at its end to ts, so the only answers that do not go backwards are ts - 1 ns
                    // and ts (the UTC clock holds during the inserted seconds)
                    let (ts, ins) = leap.inserted_interval(t).unwrap();
                    if g == ts - 1 || g == ts {
                        out.ok(2, true, 200 + (ts - g) as u64);
                    } else if (g - ts).abs() <= ins {
                        let conv = if leap.tai_to_utc(t - ins) == Some(g) { "repeats-the-utc-time-of-the-preceding-seconds" } else { "other-value" };
                        out.viol("c06.tai_to_utc", format!("goes-backwards-inside-inserted-interval,{conv},{}", if ins > NS { "1972-01-01" } else { "leap-second" }), args, format!("{} or {} (holding)", ts - 1, ts), describe(g));
                    } else {
                        out.viol("c06.tai_to_utc", format!("inserted-interval-gross,diff={}", diffclass(g, ts)), args, format!("within {ins} ns of {ts}"), describe(g));
                    }
                }
            }
        }
        Err(p) => out.viol("c06.tai_to_utc", format!("panic:{}", p.class()), args, "no panic".into(), format!("{} {}", p.loc, p.msg)),
    }
}

/// the leap_seconds accessor on TAI-labelled epochs (this is how the conversion itself uses it)
pub fn j_accessor(c: i128, leap: &LeapTable, out: &mut Local) {
    let e = Epoch::from_duration(mk(c), TimeScale::TAI);
    let args = vec![enc(c)];
    let r = guard(|| (e.leap_seconds(true), e.leap_seconds(false), e.leap_seconds_iers()));
    // the same instant held in another scale than UTC gives the same answers (the accessor reads the TAI view of the epoch)
    for ts in [TimeScale::TT, TimeScale::GPST, TimeScale::BDT, TimeScale::TDB] {
        let other = guard(|| {
            let x = e.to_time_scale(ts);
            (x.leap_seconds(true), x.leap_seconds(false), x.leap_seconds_iers(), alpha(x.to_time_scale(TimeScale::TAI).duration))
        });
        if let (Ok(a), Ok(b)) = (&r, &other) {
            // (ET/TDB come back within nanoseconds: only judged when the instant is further than that from every entry)
            let back_exact = b.3 == c;
            let near = near_entry(leap, c, 1).is_some() || LatestLeapSeconds::default().any(|l| ((c as f64 / 1e9) - l.timestamp_tai_s).abs() < 1.0);
            if (back_exact || !near) && (a.0 != b.0 || a.1 != b.1 || a.2 != b.2) {
                out.viol("c06.accessor", format!("differs-for-the-same-instant-held-in-{}", scale_name(ts)), vec![enc(c)], format!("{a:?}"), format!("{:?}", (b.0, b.1, b.2)));
                return;
            }
        }
    }
    // ambiguity window of an entry: between its (UTC-indexed) timestamp and its TAI instant both readings of
    // "accumulated leap seconds of a TAI epoch" are defensible -> don't care
    let amb = leap.entries.iter().any(|(ts, d)| c >= *ts as i128 * NS && c < (*ts + *d) as i128 * NS);
    let want_iers = {
        let d = leap.dat_utc(c);
        if c >= leap.entries[0].0 as i128 * NS { Some((d / NS) as f64) } else { None }
    };
    match r {
        Ok((a, b, i)) => {
            if amb {
                out.dc(3);
                return;
            }
            // with the non-IERS entries included the answer is pinned only in the IERS era (same as IERS-only); before
            // 1972 it may be None or any pre-IERS offset below 10 s
            // ... and, whatever those entries are, it is the offset of the LAST entry of the library's own table at or
            // before the epoch (not the largest, not the first): judged away from the 10 s after each such entry, where
            // the TAI / UTC indexing of the timestamp matters
            let own: Vec<(f64, f64)> = LatestLeapSeconds::default().map(|l| (l.timestamp_tai_s, l.delta_at)).collect();
            let cs = c as f64 / 1e9;
            let near_any = own.iter().any(|(t, _)| cs >= *t - 1.0 && cs < *t + 11.0);
            let last_own = own.iter().filter(|(t, _)| *t <= cs).last().map(|(_, d)| *d);
            let all_ok = match want_iers {
                Some(_) => b == want_iers,
                None => b.map(|x| (0.0..10.0).contains(&x)).unwrap_or(true) && (near_any || b == last_own),
            };
            if a != want_iers {
                let rel = if near_entry(leap, c, 1).is_some() { "within-1s-of-entry" } else { "elsewhere" };
                out.viol("c06.accessor", format!("iers-only-wrong,{rel}"), args, format!("{want_iers:?}"), format!("{a:?}"));
            } else if !all_ok {
                out.viol("c06.accessor", "all-entries-wrong".into(), args, format!("{want_iers:?} in the IERS era, None or < 10 s before"), format!("{b:?}"));
            } else if i != want_iers.unwrap_or(0.0) as i32 {
                out.viol("c06.accessor", "leap_seconds_iers-wrong".into(), args, format!("{want_iers:?}"), format!("{i}"));
            } else {
                out.ok(3, near_entry(leap, c, 90).is_some(), want_iers.unwrap_or(-1.0) as i64 as u64);
            }
        }
        Err(p) => out.viol("c06.accessor", format!("panic:{}", p.class()), args, "no panic".into(), format!("{} {}", p.loc, p.msg)),
    }
}

pub struct Providers {
    pub files: Vec<(String, LeapSecondsFile, LeapTable)>,
}

pub fn make_providers(leap: &LeapTable) -> Providers {
    let dir = format!("{}/target/scratch/c06", crate::report::verif());
    let dir = dir.as_str();
    std::fs::create_dir_all(dir).expect("scratch dir");
    let mut files = vec![];
    let render = |entries: &[(i64, i64)], style: usize| -> String {
        let mut s = String::new();
        if style != 1 {
            s.push_str("#\tIn the following text, the symbol '#' introduces a comment\n#$\t 3676924800\n#@\t3928521600\n#\n");
        }
        for (i, (ts, d)) in entries.iter().enumerate() {
            match style {
                0 => s.push_str(&format!("{ts}\t{d}\t# entry {i}\n")),
                1 => s.push_str(&format!("{ts} {d}\n")),
                2 => s.push_str(&format!("{ts}      {d}      # 1 Jan 1972\n\n")),
                3 => s.push_str(&format!("{ts}\t{d}\n# interleaved comment {i}\n")),
                4 => s.push_str(&format!("{ts}\t{d}\t#\t1\tJan\t1972\r\n")),
                5 => s.push_str(&format!("{ts}\t \t{d} \t # x\n")),
                // a comment that touches the second column ("the symbol '#' introduces a comment, which continues ... until
                // the end of the line")
                7 => s.push_str(&format!("{ts}\t{d}# entry {i}\n")),
                // blank lines that hold white space only ("A blank line should be ignored"), an indented comment line
                _ => s.push_str(&format!("{ts}\t{d}\t# entry {i}\n{}", ["   \n", "\t\n", " # indented comment\n", " \t \n"][i % 4])),
            }
        }
        if style == 0 {
            s.push_str("#h\te7b8be3a 9d2bc4b2 0d1ac9c5 8d6ea51f e0a6d1c9\n");
        }
        s
    };
    for n in 0..=leap.entries.len() {
        let path = format!("{dir}/prefix_{n:02}.list");
        std::fs::write(&path, render(&leap.entries[..n], 0)).expect("write provider file");
        let f = LeapSecondsFile::from_path(&path).unwrap_or_else(|e| {
            eprintln!("MACHINERY? file provider rejected harness-written IERS file {path}: {e}");
            LeapSecondsFile::default()
        });
        files.push((format!("prefix_{n:02}"), f, leap.from_prefix(n)));
    }
    for style in 1..=7 {
        let path = format!("{dir}/style_{style}.list");
        std::fs::write(&path, render(&leap.entries, style)).expect("write provider file");
        match LeapSecondsFile::from_path(&path) {
            Ok(f) => files.push((format!("style_{style}"), f, leap.clone())),
            Err(e) => files.push((format!("style_{style}:REJECTED:{e}"), LeapSecondsFile::default(), leap.clone())),
        }
    }
    // files that announce leap seconds the built-in table does not have yet (an IERS-format file of the future): the
    // provider must answer per its own entries, also for timestamps beyond 2^32 s (after 2036-02-07)
    let mut ext = leap.entries.clone();
    for (k, y) in [2035i64, 2040, 2100, 3000].iter().enumerate() {
        ext.push((days1900(*y, 1, 1) * 86_400, 38 + k as i64));
    }
    for (name, n) in [("future_29", 29usize), ("future_30", 30), ("future_32", 32)] {
        let path = format!("{dir}/{name}.list");
        std::fs::write(&path, render(&ext[..n], 0)).expect("write provider file");
        let t = LeapTable { entries: ext[..n].to_vec() };
        match LeapSecondsFile::from_path(&path) {
            Ok(f) => files.push((name.to_string(), f, t)),
            Err(e) => files.push((format!("{name}:REJECTED:{e}"), LeapSecondsFile::default(), t)),
        }
    }
    // a file that announces a NEGATIVE leap second (37 -> 36 at 2030-01-01, back to 37 at 2033-07-01): valid IERS format;
    // the offset in force is that of the last entry, not the largest one
    {
        let mut neg = leap.entries.clone();
        neg.push((days1900(2030, 1, 1) * 86_400, 36));
        neg.push((days1900(2033, 7, 1) * 86_400, 37));
        let path = format!("{dir}/negative_30.list");
        std::fs::write(&path, render(&neg, 0)).expect("write provider file");
        let t = LeapTable { entries: neg };
        match LeapSecondsFile::from_path(&path) {
            Ok(f) => files.push(("negative_30".to_string(), f, t)),
            Err(e) => files.push((format!("negative_30:REJECTED:{e}"), LeapSecondsFile::default(), t)),
        }
    }
    // long files: the same list behind (and in front of) tens of kilobytes to a megabyte of comment lines - a change log, a
    // licence text added by a mirror; a reader with a size limit or a fixed buffer drops entries silently
    for (name, before, after) in [("long_header_70k", 1_500usize, 0usize), ("long_header_1m", 22_000, 0), ("long_trailer_200k", 0, 4_500), ("long_both", 700, 700)] {
        let pad = |n: usize| (0..n).map(|i| format!("#\tchange log line {i:06}: no change to the list\n")).collect::<String>();
        let path = format!("{dir}/{name}.list");
        std::fs::write(&path, format!("{}{}{}", pad(before), render(&leap.entries, 0), pad(after))).expect("write provider file");
        match LeapSecondsFile::from_path(&path) {
            Ok(f) => files.push((name.to_string(), f, leap.clone())),
            Err(e) => files.push((format!("{name}:REJECTED:{e}"), LeapSecondsFile::default(), leap.clone())),
        }
    }
    Providers { files }
}

/// provider answers: absolute on TAI-labelled epochs, relative (file == built-in) on every scale
pub fn j_provider(pi: usize, ts: TimeScale, c: i128, prov: &Providers, out: &mut Local) {
    let (name, file, table) = &prov.files[pi];
    let e = Epoch::from_duration(mk(c), ts);
    let args = vec![pi.to_string(), scale_name(ts).to_string(), enc(c)];
    if name.contains("REJECTED") {
        out.viol("c06.provider", "iers-format-variant-rejected".into(), args, "file parses".into(), name.clone());
        return;
    }
    let r = guard(|| (e.leap_seconds_with(true, file.clone()), e.leap_seconds_with(false, file.clone()), e.leap_seconds(true)));
    match r {
        Ok((a, b, builtin)) => {
            if a != b {
                out.viol("c06.provider", "file-provider-iers-flag-matters".into(), args, format!("{a:?}"), format!("{b:?}"));
                return;
            }
            let full = table.entries.len() == 28;
            if full && a != builtin {
                out.viol("c06.provider", format!("file-differs-from-builtin,{}", scale_name(ts)), args, format!("{builtin:?}"), format!("{a:?}"));
                return;
            }
            if ts == TimeScale::TAI {
                let amb = table.entries.iter().any(|(t, d)| c >= *t as i128 * NS && c < (*t + *d) as i128 * NS);
                if !amb {
                    let want = if !table.entries.is_empty() && c >= table.entries[0].0 as i128 * NS { Some((table.dat_utc(c) / NS) as f64) } else { None };
                    if a != want {
                        out.viol("c06.provider", format!("absolute-wrong,{}", if full { "full-table" } else { "prefix-table" }), args, format!("{want:?}"), format!("{a:?}"));
                        return;
                    }
                }
            }
            out.ok(3, true, pi as u64 * 64 + a.unwrap_or(-1.0) as i64 as u64 % 64);
            if out.want_sample(true) {
                out.sample("c06.provider", args, format!("{name}: {a:?}"), true);
            }
        }
        Err(p) => out.viol("c06.provider", format!("panic:{}", p.class()), args, "no panic".into(), format!("{} {}", p.loc, p.msg)),
    }
}

// Mode A: operation sequences mixing conversions (UTC <-> TAI <-> GPST <-> TT) and +- durations, starting next to
// leap seconds; the model state is the TAI instant, the implementation state is (scale, count)
struct Seq {
    leap: LeapTable,
    inits: Vec<(u8, i128)>,
    depth: usize,
}
const SEQ_SCALES: [TimeScale; 4] = [TimeScale::UTC, TimeScale::TAI, TimeScale::GPST, TimeScale::TT];
const SEQ_STEPS: [i128; 8] = [NS, -NS, 1, -1, 37 * NS, -10 * NS, 86_400 * NS, -86_400 * NS - NS / 2];
impl crate::engine::SeqSpec for Seq {
    /// (scale index, implementation count) — the model instant is recomputed from it by the oracle at every step
    type S = (u8, i128);
    fn inits(&self) -> Vec<Self::S> {
        self.inits.clone()
    }
    fn n_actions(&self) -> usize {
        4 + 8
    }
    fn action_name(&self, a: usize) -> String {
        if a < 4 {
            format!("to_time_scale({})", scale_name(SEQ_SCALES[a]))
        } else {
            format!("+({} ns)", SEQ_STEPS[a - 4])
        }
    }
    fn state_name(&self, s: &Self::S) -> String {
        format!("{} {}", scale_name(SEQ_SCALES[s.0 as usize]), s.1)
    }
    fn max_depth(&self) -> usize {
        self.depth
    }
    fn step(&self, s: &Self::S, a: usize, path: &[u16], out: &mut Local) -> Option<Self::S> {
        use crate::oracle::scales::{from_tai, to_tai};
        let src = SEQ_SCALES[s.0 as usize];
        let e = Epoch::from_duration(mk(s.1), src);
        let args = vec![scale_name(src).to_string(), enc(s.1), a.to_string()];
        if a >= 4 {
            // arithmetic acts on the count in the epoch's own scale (C04); nothing to judge here but the result
            let d = SEQ_STEPS[a - 4];
            let r = guard(|| e + mk(d));
            return match r {
                Ok(x) if x.time_scale == src && alpha(x.duration) == s.1 + d => {
                    out.ok(1, false, 200 + a as u64);
                    Some((s.0, s.1 + d))
                }
                Ok(x) => {
                    out.viol("c06.seq", "add-wrong".into(), args, enc(s.1 + d), format!("{} {} (path {path:?})", scale_name(x.time_scale), alpha(x.duration)));
                    None
                }
                Err(p) => {
                    out.viol("c06.seq", format!("panic:{}", p.class()), args, "no panic".into(), p.msg);
                    None
                }
            };
        }
        let dst = SEQ_SCALES[a];
        let tai = to_tai(s.1, src, &self.leap)?;
        let r = guard(|| e.to_time_scale(dst));
        match (r, from_tai(tai, dst, &self.leap)) {
            (Ok(x), Some(want)) => {
                if x.time_scale == dst && alpha(x.duration) == want {
                    let near = self.leap.entries.iter().any(|(ts, d)| (tai - (*ts + *d) as i128 * NS).abs() <= 40 * NS);
                    out.ok(1, near, (s.0 as u64) * 4 + a as u64);
                    if out.want_sample(near && path.len() > 3) {
                        out.sample("c06.seq", args, format!("path {path:?} -> {} {}", scale_name(dst), want), true);
                    }
                    Some((a as u8, want))
                } else {
                    out.viol("c06.seq", format!("conversion-wrong,{}->{},diff={}", scale_name(src), scale_name(dst), diffclass(alpha(x.duration), want)), args, format!("{} {want}", scale_name(dst)), format!("{} {} (path {path:?})", scale_name(x.time_scale), alpha(x.duration)));
                    None
                }
            }
            (Ok(x), None) => {
                // inside an inserted interval: value don't-care, bounded by the inserted amount; continue from the
                // implementation's own answer (any UTC count is a valid state)
                let (ts, ins) = self.leap.inserted_interval(tai).unwrap();
                let g = alpha(x.duration);
                if g == ts - 1 || g == ts {
                    out.ok(1, true, 900 + (ts - g) as u64);
                    Some((a as u8, g))
                } else if (g - ts).abs() <= ins {
                    let conv = if self.leap.tai_to_utc(tai - ins) == Some(g) { "repeats-the-utc-time-of-the-preceding-seconds" } else { "other-value" };
                    out.viol("c06.seq", format!("goes-backwards-inside-inserted-interval,{conv},{}", if ins > NS { "1972-01-01" } else { "leap-second" }), args, format!("{} or {} (holding)", ts - 1, ts), enc(g));
                    // continue from the implementation's own answer (any UTC count is a valid state)
                    Some((a as u8, g))
                } else {
                    out.viol("c06.seq", "inserted-interval-gross".into(), args, format!("within {ins} of {ts}"), enc(alpha(x.duration)));
                    None
                }
            }
            (Err(p), _) => {
                out.viol("c06.seq", format!("panic:{}", p.class()), args, "no panic".into(), p.msg);
                None
            }
        }
    }
}

pub fn load() -> LeapTable {
    LeapTable::load().expect("leap table").0
}

pub fn run(rep: &mut Report) {
    let deep = !rep.quick();
    let q = false;
    let leap = load();
    rep.rule = "built-in table, reverse iteration, indexing and the file provider against the IERS list parsed from data/leap-seconds.list and naif0012.txt; UTC and TAI instants: every whole second from -45 s to +85 s around each of the 28 IERS and 14 SOFA entries x sub-second offsets {0, 1 ns, 1/2 s, 1 s - 1 ns}, windows of every nanosecond round each entry, the duration lattice within +-10 500 years; stateright BFS over sequences mixing conversions among UTC/TAI/GPST/TT with +- steps from states next to four table entries; providers: files written for every prefix of the IERS list (0..28 entries) and 7 format variants x the instants x scales. Oracle: table lookup on integers; TAI->UTC defined as the inverse of UTC->TAI, inside an inserted interval only the two holding values are accepted (the current convention is known finding D37). Non-trivial = within 90 s of an entry.".into();
    rep.assumptions = vec!["the two shipped data files agree with each other and with the 28-entry digest in the harness (checked at start-up; a mismatch is a machinery error)".into()];
    sweep(rep, "c06.table", 4, |i, out| j_table(if i == 3 { 3 } else if i == 2 { 4 } else { i }, &leap, out));
    // the UTC constructors from a float count or a duration: a UTC epoch with exactly that elapsed UTC time
    let cf = ctor_floats();
    let ncf = cf.len() as u64;
    sweep(rep, "c06.float_ctor", 2 * ncf, |i, out| {
        j_scale_float_ctor("c06.float_ctor", TimeScale::UTC, (i / ncf) as usize, cf[(i % ncf) as usize], out);
    });
    let lw = Some((-45i64, 85i64));
    let mut utc = lattice::el(TimeScale::UTC, if deep { 8192 } else { 8 }, lw);
    let mut tai = lattice::el(TimeScale::TAI, if deep { 8192 } else { 8 }, lw);
    // every nanosecond within +-W of each entry (UTC side) and of each entry's TAI instant
    let w: i128 = if deep { 300_000 } else { 3000 };
    for (ts, d) in &leap.entries {
        for o in -w..=w {
            utc.push(*ts as i128 * NS + o);
            tai.push(*ts as i128 * NS + o);
            tai.push((*ts + *d) as i128 * NS + o);
            tai.push((*ts + *d - 1) as i128 * NS + o);
        }
    }
    if !q {
        // every second of the day before and after each IERS entry
        for (ts, _) in &leap.entries {
            for k in -86_400i64..=86_400 {
                utc.push((*ts + k) as i128 * NS);
                tai.push((*ts + k) as i128 * NS + NS / 2);
            }
        }
    }
    utc.sort();
    utc.dedup();
    tai.sort();
    tai.dedup();
    rep.bound("utc_instants", utc.len() as u64);
    rep.bound("tai_instants", tai.len() as u64);
    rep.bound("dense_ns_window", w as u64);
    sweep(rep, "c06.utc_to_tai", utc.len() as u64, |i, out| j_utc(utc[i as usize], &leap, out));
    sweep(rep, "c06.tai_to_utc", tai.len() as u64, |i, out| j_tai(tai[i as usize], &leap, out));
    sweep(rep, "c06.accessor", tai.len() as u64, |i, out| j_accessor(tai[i as usize], &leap, out));
    // operation sequences from states next to three leap seconds (and 1972-01-01), in all four scales
    let mut inits: Vec<(u8, i128)> = vec![];
    for (ts, d) in [leap.entries[0], leap.entries[1], leap.entries[14], leap.entries[27]] {
        for o in [-2 * NS, -NS / 2, 0, NS / 2] {
            inits.push((0, ts as i128 * NS + o)); // UTC
            inits.push((1, (ts + d) as i128 * NS + o)); // TAI
            inits.push((1, (ts + d - 1) as i128 * NS + o)); // TAI, inside/just before the inserted second
            inits.push((2, (ts + d) as i128 * NS + o - crate::oracle::scales::zero_tai(TimeScale::GPST).unwrap()));
        }
    }
    let depth = if deep { 5 } else { 4 };
    rep.bound("seq", format!("{} initial states, 12 actions (4 conversions, 8 steps), depth {depth}", inits.len()));
    crate::engine::bfs(rep, "c06.seq", Seq { leap: leap.clone(), inits, depth });
    // order independence (depth-2 operation sequences on one thread): UTC -> TAI, TAI -> UTC and the accessor at instants
    // round four table entries, before the table and after it, in every order
    {
        let mut menu: Vec<(u8, i128)> = vec![];
        for (ts, d) in [leap.entries[0], leap.entries[1], leap.entries[14], leap.entries[27]] {
            for o in [-2 * NS, 0, NS / 2, 40 * NS] {
                menu.push((0, ts as i128 * NS + o));
                menu.push((1, (ts + d) as i128 * NS + o));
                menu.push((2, (ts + d) as i128 * NS + o + 50 * NS));
            }
        }
        for c in [0i128, -NS, 1_000_000_000 * NS, 5_000_000_000 * NS] {
            menu.push((0, c));
            menu.push((1, c));
            menu.push((2, c));
        }
        let lp = &leap;
        crate::engine::order_pairs(rep, "c06.order", menu.len() as u64, |i, out| match menu[i as usize] {
            (0, c) => j_utc(c, lp, out),
            (1, c) => j_tai(c, lp, out),
            (_, c) => j_accessor(c, lp, out),
        });
    }
    let prov = make_providers(&leap);
    rep.bound("providers", prov.files.len() as u64);
    // provider lattice: whole seconds around entries + sub-second edge
    let mut pl: Vec<i128> = lattice::el(TimeScale::TAI, 2, Some((-40, 40))).into_iter().filter(|v| q == false || v.rem_euclid(NS) == 0 || v.rem_euclid(NS) == NS - 1).collect();
    for (y, m) in [(2035i64, 1i64), (2040, 1), (2100, 1), (3000, 1), (2030, 1), (2033, 7)] {
        for o in [-41 * NS, -NS, -1, 0, 1, NS, 36 * NS, 45 * NS, 86_400 * NS] {
            pl.push(days1900(y, m, 1) as i128 * 86_400 * NS + o);
        }
    }
    pl.sort();
    pl.dedup();
    let scales_p: Vec<TimeScale> = if q { vec![TimeScale::TAI, TimeScale::UTC, TimeScale::GPST] } else { SCALES.to_vec() };
    let (np, ns, nl) = (prov.files.len() as u64, scales_p.len() as u64, pl.len() as u64);
    rep.bound("provider_space", format!("{np} providers x {ns} scales x {nl} instants"));
    sweep(rep, "c06.provider", np * ns * nl, |i, out| {
        let pi = (i % np) as usize;
        let j = i / np;
        j_provider(pi, scales_p[(j % ns) as usize], pl[(j / ns) as usize], &prov, out)
    });
}

pub fn replay(check: &str, a: &[String], out: &mut Local) -> bool {
    let leap = load();
    match check {
        "c06.table" => j_table(pu64(&a[0]), &leap, out),
        "c06.float_ctor" => {
            j_scale_float_ctor("c06.float_ctor", scale_from(&a[0]), a[1].parse().unwrap(), pf64(&a[2]), out);
        }
        "c06.utc_to_tai" | "c06.round_trip" => j_utc(p128(&a[0]), &leap, out),
        "c06.tai_to_utc" => j_tai(p128(&a[0]), &leap, out),
        "c06.accessor" => j_accessor(p128(&a[0]), &leap, out),
        "c06.seq" => {
            use crate::engine::SeqSpec;
            let sp = Seq { leap: leap.clone(), inits: vec![], depth: 1 };
            let si = SEQ_SCALES.iter().position(|t| scale_name(*t) == a[0]).unwrap_or(0) as u8;
            sp.step(&(si, p128(&a[1])), a[2].parse().unwrap(), &[0], out);
        }
        "c06.provider" => {
            let prov = make_providers(&leap);
            j_provider(pu64(&a[0]) as usize, scale_from(&a[1]), p128(&a[2]), &prov, out)
        }
        _ => return false,
    }
    true
}
