//! C20 GNSS week/time-of-week, ns counters and day-of-year are exact and invertible.
use super::common::*;
use crate::engine::sweep;
use crate::lattice;
use crate::oracle::civil::*;
use crate::oracle::dur::*;
use crate::oracle::leap::LeapTable;
use crate::oracle::scales;
use crate::report::{guard, Local, Report};
use hifitime::{Epoch, TimeScale};

const WEEK: i128 = 7 * NS_DAY;

pub fn j_from_tow(week: u32, ns: u64, ts: TimeScale, out: &mut Local) {
    let t = week as i128 * WEEK + ns as i128;
    let want = clamp(t);
    let args = vec![week.to_string(), ns.to_string(), scale_name(ts).to_string()];
    let r = guard(|| {
        let e = Epoch::from_time_of_week(week, ns, ts);
        let u = if ts == TimeScale::UTC { Some(Epoch::from_time_of_week_utc(week, ns)) } else { None };
        let back = e.to_time_of_week();
        (e, u, back)
    });
    match r {
        Ok((e, u, back)) => {
            if e.time_scale != ts || alpha(e.duration) != want || !canonical(e.duration) {
                out.viol("c20.from_tow", format!("wrong,diff={}", diffclass(alpha(e.duration), want)), args, format!("{} {}", scale_name(ts), describe(want)), format!("{} {}", scale_name(e.time_scale), describe(alpha(e.duration))));
            } else if u.map(|u| u.time_scale != TimeScale::UTC || alpha(u.duration) != want).unwrap_or(false) {
                out.viol("c20.from_tow", "utc-variant-differs".into(), args, describe(want), format!("{:?}", u.map(|u| alpha(u.duration))));
            } else {
                // mutual inverse whenever the pair is canonical and nothing saturated
                let canonical_pair = (ns as i128) < WEEK && t == want;
                if canonical_pair && back != (week, ns) {
                    out.viol("c20.to_tow", "not-inverse-of-from_time_of_week".into(), args, format!("({week}, {ns})"), format!("{back:?}"));
                    return;
                }
                if !canonical_pair && t == want {
                    let w = ((t / WEEK) as u32, (t % WEEK) as u64);
                    if back != w {
                        out.viol("c20.to_tow", "non-canonical-input-not-renormalised".into(), args, format!("{w:?}"), format!("{back:?}"));
                        return;
                    }
                }
                let nt = ns as i128 >= WEEK || t != want || week > 5218;
                out.ok(3, nt, (ts as u64) | ((t != want) as u64) << 4 | ((ns as i128 >= WEEK) as u64) << 5);
                if out.want_sample(nt) {
                    out.sample("c20.from_tow", args, format!("-> {}", describe(want)), nt);
                }
            }
        }
        Err(p) => out.viol("c20.from_tow", format!("panic:{}", p.class()), args, "no panic".into(), format!("{} {}", p.loc, p.msg)),
    }
}

/// decomposition of any epoch at or after the reference
pub fn j_to_tow(ts: TimeScale, c: i128, out: &mut Local) {
    let args = vec![scale_name(ts).to_string(), enc(c)];
    if c < 0 {
        out.dc(0); // statement: "any epoch at or after the reference"
        return;
    }
    let e = Epoch::from_duration(mk(c), ts);
    let r = guard(|| {
        let (w, n) = e.to_time_of_week();
        (w, n, Epoch::from_time_of_week(w, n, ts))
    });
    let want = ((c / WEEK) as u32, (c % WEEK) as u64);
    match r {
        Ok((w, n, back)) => {
            if (w, n) != want {
                out.viol("c20.to_tow", format!("wrong,{}", if n as i128 >= WEEK { "ns-of-week-not-below-a-week" } else { "wrong-pair" }), args, format!("{want:?}"), format!("({w}, {n})"));
            } else if alpha(back.duration) != c || back.time_scale != ts {
                out.viol("c20.to_tow", "round-trip".into(), args, describe(c), describe(alpha(back.duration)));
            } else {
                let nt = c % WEEK == 0 || c % WEEK == WEEK - 1 || c >= NPC;
                out.ok(2, nt, (ts as u64) | ((c >= NPC) as u64) << 4 | ((c % WEEK == 0) as u64) << 5);
                if out.want_sample(nt) {
                    out.sample("c20.to_tow", args, format!("{want:?}"), nt);
                }
            }
        }
        Err(p) => out.viol("c20.to_tow", format!("panic:{}", p.class()), args, "no panic".into(), format!("{} {}", p.loc, p.msg)),
    }
}

const GN: [TimeScale; 4] = [TimeScale::GPST, TimeScale::QZSST, TimeScale::GST, TimeScale::BDT];
fn from_ns(k: usize, n: u64) -> Epoch {
    match k {
        0 => Epoch::from_gpst_nanoseconds(n),
        1 => Epoch::from_qzsst_nanoseconds(n),
        2 => Epoch::from_gst_nanoseconds(n),
        _ => Epoch::from_bdt_nanoseconds(n),
    }
}
fn to_ns(k: usize, e: &Epoch) -> Result<u64, hifitime::HifitimeError> {
    match k {
        0 => e.to_gpst_nanoseconds(),
        1 => e.to_qzsst_nanoseconds(),
        2 => e.to_gst_nanoseconds(),
        _ => e.to_bdt_nanoseconds(),
    }
}

/// u64 counters: construct and read back
pub fn j_counter(k: usize, n: u64, out: &mut Local) {
    let args = vec![k.to_string(), n.to_string()];
    let r = guard(|| {
        let e = from_ns(k, n);
        (e, to_ns(k, &e))
    });
    match r {
        Ok((e, back)) => {
            if e.time_scale != GN[k] || alpha(e.duration) != n as i128 {
                out.viol("c20.counter", format!("ctor-wrong,{}", scale_name(GN[k])), args, format!("{} {n}", scale_name(GN[k])), format!("{} {}", scale_name(e.time_scale), alpha(e.duration)));
            } else if (n as i128) < NPC && back.as_ref().ok() != Some(&n) {
                out.viol("c20.counter", "readback-wrong".into(), args, format!("Ok({n})"), format!("{back:?}"));
            } else if (n as i128) >= NPC && back.is_ok() {
                out.viol("c20.counter", "no-error-beyond-one-century".into(), args, "Err".into(), format!("{back:?}"));
            } else {
                out.ok(2, n as i128 >= NPC, k as u64 | ((n as i128 >= NPC) as u64) << 3);
                if out.want_sample(n as i128 >= NPC) {
                    out.sample("c20.counter", args, format!("{back:?}"), n as i128 >= NPC);
                }
            }
        }
        Err(p) => out.viol("c20.counter", format!("panic:{}", p.class()), args, "no panic".into(), format!("{} {}", p.loc, p.msg)),
    }
}

/// counters read from arbitrary epochs: Ok(count) inside [0, one century), Err outside
pub fn j_counter_read(k: usize, ts: TimeScale, c: i128, leap: &LeapTable, out: &mut Local) {
    let args = vec![k.to_string(), scale_name(ts).to_string(), enc(c)];
    let Some(g) = scales::to_tai(c, ts, leap).and_then(|t| scales::from_tai(t, GN[k], leap)) else {
        out.dc(0);
        return;
    };
    let e = Epoch::from_duration(mk(c), ts);
    let r = guard(|| to_ns(k, &e));
    match r {
        Ok(res) => {
            let inside = (0..NPC).contains(&g);
            if inside && res.as_ref().ok() != Some(&(g as u64)) {
                out.viol("c20.counter_read", "wrong-inside-domain".into(), args, format!("Ok({g})"), format!("{res:?}"));
            } else if !inside && res.is_ok() {
                out.viol("c20.counter_read", format!("wrong-number-instead-of-error,{}", if g < 0 { "negative" } else { "beyond-one-century" }), args, "Err".into(), format!("{res:?}"));
            } else {
                // the {:o} form is documented as the GPS counter of the epoch: the number where there is one, a
                // formatting error - not a panic, not a wrong number - where there is none
                if k == 0 {
                    use std::fmt::Write;
                    let mut text = String::new();
                    match guard(|| write!(text, "{e:o}").map(|_| ())) {
                        Ok(w) => {
                            let ok = if inside { w.is_ok() && text == (g as u64).to_string() } else { w.is_err() };
                            if !ok {
                                out.viol("c20.counter_read", format!("octal-format,{}", if inside { "wrong-text" } else { "no-error-outside-domain" }), args, if inside { g.to_string() } else { "fmt::Error".into() }, format!("{w:?} {text:?}"));
                                return;
                            }
                        }
                        Err(p) => {
                            out.viol("c20.counter_read", format!("octal-format,panic:{},{}", p.class(), if g < 0 { "negative" } else if inside { "inside" } else { "beyond-one-century" }), args, if inside { g.to_string() } else { "fmt::Error".into() }, format!("{} {}", p.loc, p.msg));
                            return;
                        }
                    }
                }
                out.ok(1, !inside, k as u64 | (inside as u64) << 3 | ((g < 0) as u64) << 4);
                if out.want_sample(!inside) {
                    out.sample("c20.counter_read", args, format!("{res:?}"), !inside);
                }
            }
        }
        Err(p) => out.viol("c20.counter_read", format!("panic:{}", p.class()), args, "no panic".into(), format!("{} {}", p.loc, p.msg)),
    }
}

/// from_day_of_year -> (year, day_of_year) agree to float precision; 1 January is day 1.0
pub fn j_doy(year: i32, day: u32, frac: f64, ts: TimeScale, out: &mut Local) {
    let doy = day as f64 + frac;
    let args = vec![year.to_string(), day.to_string(), ef64(frac), scale_name(ts).to_string()];
    let r = guard(|| {
        let e = Epoch::from_day_of_year(year, doy, ts);
        (e, e.year(), e.day_of_year(), e.year_days_of_year(), alpha(e.duration_in_year()))
    });
    // the epoch itself: start of year + (doy - 1) days, truncated to ns
    let (zd, zt) = scales::gregorian_zero(ts);
    let start = (days1900(year as i64, 1, 1) - zd) as i128 * NS_DAY - zt;
    let want = start + crate::oracle::ulp::trunc_i128((doy - 1.0) * NS_DAY as f64);
    match r {
        Ok((e, y, d, yd, diy)) => {
            // duration_in_year: elapsed civil time since 1 January 00:00:00 of the epoch's year in its own scale, exact
            if (alpha(e.duration) - want).abs() <= 1 && y == year && diy != alpha(e.duration) - start {
                out.viol("c20.doy", "duration_in_year-wrong".into(), args, enc(alpha(e.duration) - start), enc(diy));
                return;
            }
            let tol = 8.0 * crate::oracle::ulp::ulp_of(366.0) + 2.0 / NS_DAY as f64;
            if e.time_scale != ts || (alpha(e.duration) - want).abs() > 1 {
                out.viol("c20.doy", format!("epoch-wrong,diff={}", diffclass(alpha(e.duration), want)), args, describe(want), describe(alpha(e.duration)));
            } else if y != year || (d - doy).abs() > tol || yd != (y, d) {
                let cls = if y != year { "year-wrong" } else if ((d - doy).abs() - 1.0).abs() < 1e-6 { "off-by-one-day" } else { "fraction-wrong" };
                out.viol("c20.doy", cls.into(), args, format!("({year}, {doy})"), format!("({y}, {d}) / {yd:?}"));
            } else {
                let nt = day == 1 || day as i64 == year_len(year as i64) || frac != 0.0;
                out.ok(4, nt, (ts as u64) | ((day == 1) as u64) << 4 | ((frac != 0.0) as u64) << 5 | (is_leap(year as i64) as u64) << 6);
                if out.want_sample(nt) {
                    out.sample("c20.doy", args, format!("({y}, {d})"), nt);
                }
            }
        }
        Err(p) => out.viol("c20.doy", format!("panic:{}", p.class()), args, "no panic".into(), format!("{} {}", p.loc, p.msg)),
    }
}

pub fn run(rep: &mut Report) {
    let q = rep.quick();
    let leap = LeapTable::load().expect("leap").0;
    rep.rule = "every week 0..=8192 (thorough 131 072), a geometric scan (ratio 1.25, +-1) of the rest up to MAX/week +-1, u32::MAX x ns-of-week {every day boundary 0..8 days +-1 ns and +12 h, every hour of the first day, 2^32+-1, 10^9, week+-1, 2^53+1, 2^63, u64::MAX} x 9 scales through from_time_of_week (+ _utc) and back; to_time_of_week on the non-negative part of the epoch lattice x 9 scales; u64 counters {0,1,century-1,century,century+1,2^63,u64::MAX,...} x 4 GNSS scales; counter reads from the epoch lattice in 7 scales (negative and >= one century must be Err); (year, day of year) for 13 years (every year 0001-9999 thorough, every 7th day) x every whole day x fractions {0,1/4,1/2,0.999,0.99999,1-1e-9} x 9 scales. Non-trivial = non-canonical/saturating input, week boundary, count >= one century, first/last day of the year.".into();
    rep.assumptions = vec!["negative counts are outside to_time_of_week's quantifier (don't-care)".into()];
    let max_w = (DMAX / WEEK) as u32;
    let mut weeks: Vec<u32> = vec![0, 1, 2, 1023, 1024, 2047, 2048, 5217, 5218, 5219, 170_000, max_w - 1, max_w, max_w + 1, u32::MAX];
    // every week number a receiver can report for the next century and a half (all 10- and 13-bit roll-overs included),
    // and a geometric scan of the rest of the range
    weeks.extend(0..=if q { 8_192 } else { 131_072 });
    let mut g: u64 = 8_192;
    while g < max_w as u64 {
        weeks.extend([g as u32 - 1, g as u32, g as u32 + 1]);
        g = g * 5 / 4 + 1;
    }
    weeks.sort();
    weeks.dedup();
    let mut nss: Vec<u64> = vec![0, 1, NS_DAY as u64 - 1, NS_DAY as u64, NS_DAY as u64 + 1, WEEK as u64 - 1, WEEK as u64, WEEK as u64 + 1, 1 << 63, u64::MAX, 123_456_789_012_345];
    // every day boundary of the week and every hour of the first day, each +- 1 ns, and the 32-bit boundaries of the count
    for d in 0..=8u64 {
        for o in [-1i64, 0, 1, 43_200_000_000_000] {
            nss.push((d * NS_DAY as u64).wrapping_add(o as u64));
        }
    }
    for h in 1..24u64 {
        nss.extend([h * 3_600_000_000_000 - 1, h * 3_600_000_000_000]);
    }
    nss.extend([(1u64 << 32) - 1, 1 << 32, (1 << 32) + 1, 999_999_999, 1_000_000_000, (1 << 53) + 1]);
    nss.sort();
    nss.dedup();
    let (nw, nn) = (weeks.len() as u64, nss.len() as u64);
    sweep(rep, "c20.from_tow", nw * nn * 9, |i, out| j_from_tow(weeks[(i / (nn * 9)) as usize], nss[((i / 9) % nn) as usize], SCALES[(i % 9) as usize], out));
    for ts in SCALES {
        let mut el: Vec<i128> = lattice::el(ts, if q { 16 } else { 256 }, None);
        for w in [0i128, 1, 2, 1024, 2048, 5218, 5219, 170_000] {
            for o in [-1i128, 0, 1, NS_DAY, WEEK - 1] {
                el.push(w * WEEK + o);
            }
        }
        el.sort();
        el.dedup();
        sweep(rep, &format!("c20.to_tow[{}]", scale_name(ts)), el.len() as u64, |i, out| j_to_tow(ts, el[i as usize], out));
    }
    // interior scan (round 8): evenly spread, unremarkable (week, nanosecond of week) pairs and epoch counts
    {
        let nsc: u64 = if q { 1_500_000 } else { 20_000_000 };
        rep.bound("interior_scan_points", nsc);
        sweep(rep, "c20.scan_from_tow", 9 * (nsc / 4), |i, out| {
            let k = i / 9;
            let w = if k % 4 == 3 { lattice::scan_point(k, 0, 0, max_w as i128) } else { lattice::scan_point(k, 1, 0, 20_000) } as u32;
            // (the two choices are taken from different digits of k, so that every kind of week meets every kind of count)
            let n = match (k / 4) % 8 { 7 => lattice::scan_point(k, 2, 0, u64::MAX as i128), 5 | 6 => lattice::scan_point(k, 5, 0, NPC), _ => lattice::scan_point(k, 3, 0, WEEK - 1) } as u64;
            j_from_tow(w, n, SCALES[(i % 9) as usize], out)
        });
        sweep(rep, "c20.scan_to_tow", 9 * (nsc / 4), |i, out| j_to_tow(SCALES[(i % 9) as usize], if (i / 9) % 2 == 0 { lattice::scan_point(i / 18, 4, 0, 100 * NPC) } else { lattice::scan_magnitude(i / 9, 5, 0, 76).abs().min(DMAX) }, out));
        sweep(rep, "c20.scan_counter", 4 * (nsc / 4), |i, out| j_counter((i % 4) as usize, if (i / 4) % 2 == 0 { lattice::scan_point(i / 8, 0, 0, NPC - 1) } else { lattice::scan_point(i / 8, 1, 0, u64::MAX as i128) } as u64, out));
    }
    let cs: Vec<u64> = vec![0, 1, 999_999_999, NS_DAY as u64, WEEK as u64, 1 << 53, NPC as u64 - 1, NPC as u64, NPC as u64 + 1, 1 << 62, 1 << 63, (1 << 63) + 1, 2 * NPC as u64, 5 * NPC as u64 + 7, u64::MAX - 1, u64::MAX];
    sweep(rep, "c20.counter", 4 * cs.len() as u64, |i, out| j_counter((i % 4) as usize, cs[(i / 4) as usize], out));
    // order independence (depth-2 operation sequences on one thread): time of week both ways, counters, day of year
    crate::engine::order_pairs(rep, "c20.order", 4 * 12 + 6, |i, out| {
        let ts = SCALES[(i % 9) as usize];
        if i >= 48 {
            // epochs whose elapsed times are mirror images about the reference epoch (1900-01-01 +- 1827 days in TAI, UTC, TT)
            let (y, d) = [(1905i32, 2u32), (1894, 365)][(i % 2) as usize];
            return j_doy(y, d, 0.0, [TimeScale::TAI, TimeScale::UTC, TimeScale::TT][((i - 48) / 2) as usize], out);
        }
        match i / 12 {
            0 => j_from_tow([0u32, 1, 1024, 2086, 5218, 6366][(i % 6) as usize], [0u64, 1, 345_618_000_000_000, 604_799_999_999_999][((i / 3) % 4) as usize], ts, out),
            1 => j_to_tow(ts, [0i128, 1, WEEK - 1, WEEK, 3 * NPC + 5, 1_261_440_018 * NS_S][(i % 6) as usize], out),
            2 => j_counter((i % 4) as usize, [0u64, 1, NPC as u64 - 1, NPC as u64, u64::MAX, 1 << 63][(i % 6) as usize], out),
            _ => j_doy([1i32, 200, 1582, 1900, 2024, 9999][(i % 6) as usize], [1u32, 60, 365][((i / 6) % 3 % 3) as usize], [0.0, 0.5][(i % 2) as usize], ts, out),
        }
    });
    for ts in [TimeScale::TAI, TimeScale::UTC, TimeScale::TT, TimeScale::GPST, TimeScale::GST, TimeScale::BDT, TimeScale::QZSST] {
        let mut el = lattice::el(ts, if q { 16 } else { 256 }, None);
        // both ends of each counter's domain, expressed in this scale
        for g in GN {
            if let Some(z) = scales::zero_tai(g) {
                let sh = scales::zero_tai(ts).unwrap_or(0);
                for o in [-NS_S, -1, 0, 1, NPC - 1, NPC, NPC + 1, NPC + NS_S] {
                    el.push(z + o - sh);
                    el.push(z + o - sh + 37 * NS_S);
                    el.push(z + o - sh - 37 * NS_S);
                }
            }
        }
        el.sort();
        el.dedup();
        sweep(rep, &format!("c20.counter_read[{}]", scale_name(ts)), 4 * el.len() as u64, |i, out| j_counter_read((i % 4) as usize, ts, el[(i / 4) as usize], &leap, out));
    }
    let mut years: Vec<i32> = if q { vec![1, 4, 100, 400, 1582, 1899, 1900, 1904, 1999, 2000, 2023, 2024, 9999] } else { (1..=9999).collect() };
    // every year in which a leap second was inserted, and the year after (the elapsed time in a UTC year is civil time)
    for d in leap.leap_days() {
        let y = crate::oracle::civil::civil1900(d).0 as i32;
        years.push(y);
        years.push(y + 1);
    }
    years.sort();
    years.dedup();
    // fractions of a day: quarter points, the last minutes, the last second (23:59:59.136) and the last 100 us of the day
    let fr = [0.0, 0.25, 0.5, 0.999, 0.99999, 1.0 - 1e-9];
    let mut cases: Vec<(i32, u32)> = vec![];
    for y in &years {
        let n = year_len(*y as i64) as u32;
        for d in 1..=n {
            if q || d == 1 || d == n || d == 59 || d == 60 || d == 61 || d % 7 == (*y as u32 % 7) {
                cases.push((*y, d));
            }
        }
    }
    rep.bound("doy_cases", cases.len() as u64);
    let nc = cases.len() as u64;
    sweep(rep, "c20.doy", nc * 6 * 9, |i, out| {
        let (y, d) = cases[(i / 54) as usize];
        j_doy(y, d, fr[((i / 9) % 6) as usize], SCALES[(i % 9) as usize], out)
    });
}

pub fn replay(check: &str, a: &[String], out: &mut Local) -> bool {
    let leap = LeapTable::load().expect("leap").0;
    match check {
        "c20.from_tow" => j_from_tow(a[0].parse().unwrap(), pu64(&a[1]), scale_from(&a[2]), out),
        "c20.to_tow" => {
            if a.len() == 3 {
                j_from_tow(a[0].parse().unwrap(), pu64(&a[1]), scale_from(&a[2]), out)
            } else {
                j_to_tow(scale_from(&a[0]), p128(&a[1]), out)
            }
        }
        "c20.counter" => j_counter(a[0].parse().unwrap(), pu64(&a[1]), out),
        "c20.counter_read" => j_counter_read(a[0].parse().unwrap(), scale_from(&a[1]), p128(&a[2]), &leap, out),
        "c20.doy" => j_doy(a[0].parse().unwrap(), a[1].parse().unwrap(), pf64(&a[2]), scale_from(&a[3]), out),
        _ => return false,
    }
    true
}
