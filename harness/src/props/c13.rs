//! C13 Parsers are total: any string yields a value or an error, never a panic.
use super::common::*;
use crate::engine::sweep_named;
use crate::oracle::civil::month_len;
use crate::report::{guard, Local, Report};
use hifitime::efmt::Format;
use hifitime::{Duration, Epoch, MonthName, TimeScale, Weekday};
use std::str::FromStr;

pub const PARSERS: [&str; 8] = ["Epoch::from_str", "Epoch::from_gregorian_str", "Format::from_str", "Duration::from_str", "TimeScale::from_str", "Weekday::from_str", "MonthName::from_str", "Epoch::from_format_str"];

/// run one single-argument parser; Ok(true) = value, Ok(false) = error
fn run1(p: usize, s: &str) -> Result<bool, crate::report::Panicked> {
    guard(|| match p {
        0 => Epoch::from_str(s).is_ok(),
        1 => Epoch::from_gregorian_str(s).is_ok(),
        2 => Format::from_str(s).is_ok(),
        3 => Duration::from_str(s).is_ok(),
        4 => TimeScale::from_str(s).is_ok(),
        5 => Weekday::from_str(s).is_ok(),
        _ => MonthName::from_str(s).is_ok(),
    })
}

fn input_class(s: &str) -> &'static str {
    if !s.is_ascii() {
        if s.chars().any(|c| !c.is_ascii() && c.is_numeric()) {
            "non-ascii-digit"
        } else {
            "non-ascii"
        }
    } else if s.bytes().filter(|b| b.is_ascii_digit()).count() > 24 {
        "long-digit-run"
    } else if s.contains("inf") || s.contains("nan") || s.contains("NaN") || s.contains("e4") || s.contains("E4") || s.contains("e-4") {
        "non-finite-or-huge-exponent"
    } else {
        "ascii"
    }
}

pub fn j_total(p: usize, s: &str, out: &mut Local) {
    match run1(p, s) {
        Ok(v) => {
            // the result is a function of the string: the same text handed over as the front part of a longer buffer (a
            // field of a line, bytes that would complete a unit or a name right behind it) must give the same verdict - a
            // read past the end of the slice cannot be seen on an owned copy
            if s.len() <= 64 && p >= 3 && p <= 6 && s.as_bytes().last().is_some_and(|b| b.is_ascii_alphabetic()) {
                for tail in ["s", "in", "TC", "ay"] {
                    let big = format!("{s}{tail}");
                    if let Ok(v2) = run1(p, &big[..s.len()]) {
                        if v2 != v {
                            out.viol("c13.total", format!("{}/result-depends-on-bytes-behind-the-string/{}", PARSERS[p], input_class(s)), vec![p.to_string(), s.to_string()], format!("{}", if v { "Ok" } else { "Err" }), format!("{} when followed in memory by {tail:?}", if v2 { "Ok" } else { "Err" }));
                            return;
                        }
                    }
                }
            }
            let nt = !s.is_ascii() || s.len() > 6;
            out.ok(1, nt, p as u64 * 4 + v as u64 + 2 * (!s.is_ascii()) as u64);
            if out.want_sample(nt && v) {
                out.sample("c13.total", vec![p.to_string(), s.to_string()], format!("{}({s:?}) -> {}", PARSERS[p], if v { "Ok" } else { "Err" }), nt && v);
            }
        }
        Err(pn) => out.viol("c13.total", format!("{}/panic:{}/{}", PARSERS[p], pn.class(), input_class(s)), vec![p.to_string(), s.to_string()], "Ok or Err".into(), format!("panic at {}: {}", pn.loc, pn.msg)),
    }
}

/// two-argument entry points: (format string, input)
pub fn j_total2(fmt: &str, s: &str, out: &mut Local) {
    let r = guard(|| {
        let a = Epoch::from_format_str(s, fmt).is_ok();
        let b = match Format::from_str(fmt) {
            Ok(f) => {
                let x = f.parse(s).is_ok();
                let y = Epoch::from_str_with_format(s, f).is_ok();
                assert_eq!(x, y, "Format::parse and from_str_with_format disagree");
                Some(x)
            }
            Err(_) => None,
        };
        (a, b)
    });
    match r {
        Ok((a, b)) => {
            if b.is_some() && b != Some(a) {
                out.viol("c13.total2", "entry-points-disagree".into(), vec![fmt.to_string(), s.to_string()], "same verdict".into(), format!("{a} vs {b:?}"));
            } else {
                out.ok(3, b.is_some(), a as u64 + 2 * b.is_some() as u64 + 4 * (!s.is_ascii() || !fmt.is_ascii()) as u64);
                if out.want_sample(a) {
                    out.sample("c13.total2", vec![fmt.to_string(), s.to_string()], format!("from_format_str({s:?}, {fmt:?}) -> {}", if a { "Ok" } else { "Err" }), a);
                }
            }
        }
        Err(pn) => {
            let tok = if fmt.contains("%w") { "with-%w" } else { "no-%w" };
            out.viol("c13.total2", format!("Epoch::from_format_str/panic:{}/{}/{tok}", pn.class(), input_class(&format!("{fmt}{s}"))), vec![fmt.to_string(), s.to_string()], "Ok or Err".into(), format!("panic at {}: {}", pn.loc, pn.msg))
        }
    }
}

/// well-formed text whose fields are out of range must be rejected
pub fn j_range(form: usize, y: i32, m: u32, d: u32, h: u32, mi: u32, s: u32, out: &mut Local) {
    let text = match form {
        0 => format!("{y:04}-{m:02}-{d:02}T{h:02}:{mi:02}:{s:02} UTC"),
        1 => format!("{y:04}-{m:02}-{d:02} {h:02}:{mi:02}:{s:02}"),
        2 => format!("{y:04}-{m:02}-{d:02}T{h:02}:{mi:02}:{s:02}Z"),
        3 => format!("{y:04}-{m:02}-{d:02}T{h:02}:{mi:02}:{s:02}.5 TAI"),
        _ => format!("{y:04}-{m:02}-{d:02}T{h:02}:{mi:02}:{s:02}+00:00"),
    };
    let args = vec![form.to_string(), y.to_string(), m.to_string(), d.to_string(), h.to_string(), mi.to_string(), s.to_string()];
    // listed-invalid: month 0 / > 12, day 0 / beyond the month, hour > 24, minute > 59, second > 60
    // hour 24 is only ever meaningful as 24:00:00 (end of day, ISO 8601): with non-zero minutes or seconds it is out
    // of range in every convention and would silently become a time on the next day; 24:00:00 itself is a don't-care
    // second 60 is in range only at 23:59 on a day on which a leap second was inserted (C08's rule; 1971-12-31 is silent)
    static LEAP_DAYS: std::sync::OnceLock<Vec<i64>> = std::sync::OnceLock::new();
    let leap_days = LEAP_DAYS.get_or_init(|| crate::oracle::leap::LeapTable::load().expect("leap").0.leap_days());
    let s60_out = s == 60 && m >= 1 && m <= 12 && d >= 1 && d <= 31 && h <= 23 && mi <= 59 && super::c08::classify(y, m as u8, d as u8, h as u8, mi as u8, 60, 0, leap_days) == Some(false);
    let invalid = m == 0 || m > 12 || d == 0 || d as i64 > month_len(y as i64, m as i64) || h > 24 || (h == 24 && (mi > 0 || s > 0)) || mi > 59 || s > 60 || s60_out;
    let valid = !invalid && h < 24 && s < 60;
    let feb30 = m == 2 && crate::oracle::civil::is_leap(y as i64) && (d == 30 || d == 31) && h <= 24 && mi <= 59 && s <= 60;
    let r = guard(|| {
        let a = Epoch::from_str(&text).is_ok();
        let b = Epoch::from_gregorian_str(&text).is_ok();
        let c = if form == 0 { Epoch::from_format_str(&text, "%Y-%m-%dT%H:%M:%S %T").is_ok() } else { a };
        (a, b, c)
    });
    match r {
        Ok((a, b, c)) => {
            if invalid && (a || b || c) {
                let which = if feb30 { "feb-30-or-31-in-leap-year" } else if m == 0 || m > 12 { "month" } else if d == 0 || d as i64 > month_len(y as i64, m as i64) { "day" } else if h >= 24 { "hour" } else if mi > 59 { "minute" } else if s == 60 { "second-60-outside-a-leap-second" } else { "second" };
                out.viol("c13.range", format!("out-of-range-accepted,{which}"), args, format!("Err for {text:?}"), format!("from_str={a} from_gregorian_str={b} from_format_str={c}"));
            } else if valid && !(a && b && c) {
                out.viol("c13.range", "valid-rejected".into(), args, format!("Ok for {text:?}"), format!("from_str={a} from_gregorian_str={b} from_format_str={c}"));
            } else if !invalid && !valid {
                out.dc(3);
            } else {
                out.ok(3, invalid, invalid as u64 + 2 * form as u64);
                if out.want_sample(invalid) {
                    out.sample("c13.range", args, format!("{text:?} rejected"), invalid);
                }
            }
        }
        Err(pn) => out.viol("c13.range", format!("panic:{}", pn.class()), args, "Ok or Err".into(), format!("panic at {}: {}", pn.loc, pn.msg)),
    }
}

/// structured (format, input) pairs: the input is what the real formatter prints for the format (so it matches
/// token by token), and field-count variants of it; every parse must return
pub fn j_structured(toks: &[char], seps: &[usize], c: i128, variant: usize, out: &mut Local) {
    use super::c19::sep_string;
    let mut fmt = String::new();
    for (i, t) in toks.iter().enumerate() {
        fmt.push('%');
        fmt.push(*t);
        if i + 1 < toks.len() {
            fmt.push_str(&sep_string(seps[i % seps.len().max(1)]));
        }
    }
    let e = Epoch::from_duration(crate::oracle::dur::mk(c), TimeScale::UTC);
    let rendered = guard(|| Format::from_str(&fmt).ok().map(|f| format!("{}", hifitime::efmt::Formatter::new(e, f))));
    let base = match rendered {
        Ok(Some(s)) => s,
        Ok(None) => {
            out.dc(1);
            return;
        }
        Err(p) => {
            out.viol("c13.structured", format!("Formatter/panic:{}", p.class()), vec![fmt, c.to_string(), variant.to_string()], "no panic".into(), format!("{} {}", p.loc, p.msg));
            return;
        }
    };
    let input = match variant {
        0 => base.clone(),
        1 => format!("{base} 1"),
        2 => format!("{base}{}7", sep_string(seps.first().copied().unwrap_or(1)).chars().next().unwrap_or('-')),
        3 => base.chars().take(base.chars().count().saturating_sub(1)).collect(),
        4 => base.chars().take(base.chars().count() / 2).collect(),
        _ => format!(" {base}  "),
    };
    j_total2(&fmt, &input, out);
}

/// the same clause through Format::parse (the strftime-style parser): calendar text closed by 'Z' or another trailing
/// character, offsets, ordinal dates and ordinal dates with a time of day
pub fn j_range_fmt(fam: usize, v: [i64; 6], out: &mut Local) {
    use hifitime::efmt::consts::RFC3339;
    let ylen = |y: i64| if crate::oracle::civil::is_leap(y) { 366 } else { 365 };
    // (format, text, invalid, valid, which)
    let (fmt, text, invalid, valid, which): (String, String, bool, bool, &str) = match fam {
        0 | 1 | 2 => {
            // v = [year, hour, minute, second, tail, _]: full calendar text with a trailing 'Z' / " UTC" / ';'
            let (y, h, mi, sc) = (v[0], v[1], v[2], v[3]);
            let tail = ["Z", " UTC", ";"][v[4] as usize];
            let text = format!("{y:04}-02-13T{h:02}:{mi:02}:{sc:02}{tail}");
            let inv = h > 24 || (h == 24 && (mi > 0 || sc > 0)) || mi > 59 || sc > 59;
            let fmt = match fam {
                0 => "RFC3339".to_string(),
                1 => "%Y-%m-%dT%H:%M:%S".to_string(),
                _ => "%Y-%m-%d %H:%M:%S".to_string(),
            };
            let text = if fam == 2 { text.replace('T', " ") } else { text };
            (fmt, text, inv, !inv && h < 24, if h >= 24 { "hour" } else if mi > 59 { "minute" } else { "second" })
        }
        3 => {
            // v = [offset hours, offset minutes, sign, ..]: RFC 3339 text with an offset
            let (oh, om) = (v[0], v[1]);
            let text = format!("2020-01-01T00:00:00.5{}{oh:02}:{om:02}", if v[2] == 0 { '+' } else { '-' });
            let inv = oh > 23 || om > 59;
            ("RFC3339".to_string(), text, inv, !inv, "offset")
        }
        4 => {
            // v = [year, day of year]: ISO 8601 ordinal date
            // v[2] = order of the two tokens: the year first (ISO), or the day of year first (the year is not known yet
            // when the day of year is read)
            let (y, j) = (v[0], v[1]);
            let inv = j < 1 || j > ylen(y);
            match v[2] {
                0 => ("%Y-%j".to_string(), format!("{y:04}-{j:03}"), inv, !inv, "day-of-year"),
                1 => ("%j/%Y".to_string(), format!("{j:03}/{y:04}"), inv, !inv, "day-of-year"),
                _ => ("%j %H:%M:%S %Y".to_string(), format!("{j:03} 11:22:33 {y:04}"), inv, !inv, "day-of-year"),
            }
        }
        5 => {
            // v = [year, tenths of a day of year]: fractional day of year
            let (y, t) = (v[0], v[1]);
            let inv = t < 10 || t >= (ylen(y) + 1) * 10;
            ("%Y %J".to_string(), format!("{y:04} {}.{}", t.div_euclid(10), t.rem_euclid(10)), inv, false, "fractional-day-of-year")
        }
        7 => {
            // v = [format, field]: a '-' in front of one numeric field of an otherwise valid text. A negative month, day,
            // day of year, hour, minute or second is out of range; a negative year is another year (judged below: the
            // text must not be read as the positive year)
            const F7: [(&str, &[&str]); 5] = [
                ("%Y-%m-%dT%H:%M:%S", &["2017", "-", "01", "-", "14", "T", "05", ":", "10", ":", "20"]),
                ("%Y-%m-%d %H:%M:%S", &["2017", "-", "01", "-", "14", " ", "05", ":", "10", ":", "20"]),
                ("%d/%m/%Y %H:%M:%S", &["14", "/", "01", "/", "2017", " ", "05", ":", "10", ":", "20"]),
                ("%Y-%jT%H:%M:%S", &["2017", "-", "060", "T", "05", ":", "10", ":", "20"]),
                ("%Y-%m-%d", &["2017", "-", "01", "-", "14"]),
            ];
            let (f, parts) = F7[v[0] as usize];
            let k = (v[1] as usize) * 2;
            let mut text = String::new();
            for (i, p) in parts.iter().enumerate() {
                if i == k {
                    text.push('-');
                }
                text.push_str(p);
            }
            let tok: Vec<&str> = f.split('%').skip(1).collect();
            let which = match tok[v[1] as usize].chars().next().unwrap() {
                'Y' => "sign-of-the-year-dropped",
                'm' => "negative-month",
                'd' => "negative-day",
                'j' => "negative-day-of-year",
                'H' => "negative-hour",
                'M' => "negative-minute",
                _ => "negative-second",
            };
            (f.to_string(), text, true, false, which)
        }
        8 => {
            // v = [format, month, day]: a month / day field next to a day of year, or given twice, or next to a month name:
            // the parser keeps one of them; the other one must still be in range
            let (mo, d) = (v[1], v[2]);
            // next to a day of year the (month, day) pair is one date and must exist; when a field is given twice or
            // overridden by a name only each field's own range is judged (which pair forms "the date" is not defined)
            let field = mo < 1 || mo > 12 || d < 1 || d > 31;
            // (since the repair of D66 a field given twice must agree with itself; a text that CONTAINS an impossible date
            // in one of its readings - "31 15 02 2017", "02 Mar 31 2017" - must be refused in every case)
            let inv = field || d > crate::oracle::civil::month_len(2017, mo);
            let (f, text) = match v[0] {
                0 => ("%Y-%m-%d %j", format!("2017-{mo:02}-{d:02} 060")),
                1 => ("%j %Y-%m-%d", format!("060 2017-{mo:02}-{d:02}")),
                2 => ("%d %d %m %Y", format!("{d:02} 15 {mo:02} 2017")),
                _ => ("%m %b %d %Y", format!("{mo:02} Mar {d:02} 2017")),
            };
            (f.to_string(), text, inv, false, if mo < 1 || mo > 12 { "month" } else { "day" })
        }
        9 => {
            // v = [format, day of year]: second 60 next to a day of year, with an unused month / day that names a leap second
            // day: the date that is built (the day of year) has no 23:59:60 unless it is that very day
            let j = v[1];
            let (f, text, leap_doy) = match v[0] {
                0 => ("%Y-%m-%d %j %H:%M:%S", format!("2016-12-31 {j:03} 23:59:60"), 366),
                1 => ("%Y-%m-%d %j %H:%M:%S", format!("2015-06-30 {j:03} 23:59:60"), 181),
                2 => ("%d %B %Y %j %H:%M:%S", format!("31 December 2016 {j:03} 23:59:60"), 366),
                _ => ("%Y-%j %H:%M:%S %b %d", format!("1972-{j:03} 23:59:60 Jun 30"), 182),
            };
            (f.to_string(), text, j != leap_doy, false, "second-60-allowed-by-an-unused-date")
        }
        10 => {
            // v = [format, first day of year, second day of year]: a day of year given twice - the first value must be in
            // range too (2021 has 365 days)
            let (a, b) = (v[1], v[2]);
            let (f, text) = match v[0] {
                0 => ("%Y %j %j", format!("2021 {a:03} {b:03}")),
                1 => ("%j %Y %j", format!("{a:03} 2021 {b:03}")),
                2 => ("%Y %j %J", format!("2021 {a:03} {b:03}")),
                _ => ("%Y %J %j", format!("2021 {a:03} {b:03}")),
            };
            let inv = a < 1 || a > 365 || b < 1 || b > 365;
            (f.to_string(), text, inv, false, "day-of-year-given-twice")
        }
        _ => {
            // v = [year, day of year, hour, minute, second]: ordinal date with a time of day (27 April / 31 December are
            // not leap-second days in these years)
            let (y, j, h, mi, sc) = (v[0], v[1], v[2], v[3], v[4]);
            let inv = j < 1 || j > ylen(y) || h > 24 || (h == 24 && (mi > 0 || sc > 0)) || mi > 59 || sc > 59;
            ("%Y-%jT%H:%M:%S".to_string(), format!("{y:04}-{j:03}T{h:02}:{mi:02}:{sc:02}"), inv, !inv && h < 24, if j < 1 || j > ylen(y) { "day-of-year" } else if h >= 24 { "hour" } else if mi > 59 { "minute" } else { "second-with-ordinal-date" })
        }
    };
    let args: Vec<String> = std::iter::once(fam.to_string()).chain(v.iter().map(|x| x.to_string())).collect();
    let r = guard(|| {
        let e = if fmt == "RFC3339" { RFC3339.parse(&text).ok() } else { Epoch::from_format_str(&text, &fmt).ok() };
        match e {
            // a sign in front of the year: reading the year as negative is a correct answer
            Some(e) if which == "sign-of-the-year-dropped" => e.to_gregorian_utc().0 > 0,
            Some(_) => true,
            None => false,
        }
    });
    let fam_name = ["rfc3339-with-trailing-character", "custom-format-with-trailing-character", "custom-format-with-trailing-character", "rfc3339-offset", "ordinal", "fractional-ordinal", "ordinal-with-time", "sign-in-front-of-a-field", "field-given-twice-or-overridden", "ordinal-with-unused-date", "field-given-twice-or-overridden"][fam.min(10)];
    match r {
        Ok(acc) => {
            if invalid && acc {
                out.viol("c13.range_fmt", format!("out-of-range-accepted,{fam_name},{which}"), args, format!("Err for {text:?} with {fmt:?}"), "Ok".into());
            } else if valid && !acc && fam >= 3 {
                // (a trailing character after a complete date-time is not "well-formed" text for the custom formats)
                out.viol("c13.range_fmt", format!("valid-rejected,{fam_name}"), args, format!("Ok for {text:?} with {fmt:?}"), "Err".into());
            } else {
                out.ok(1, invalid, fam as u64 * 4 + invalid as u64 + 2 * acc as u64);
                if out.want_sample(invalid) {
                    out.sample("c13.range_fmt", args, format!("{text:?} with {fmt:?}: {}", if acc { "Ok" } else { "Err" }), invalid);
                }
            }
        }
        Err(pn) => out.viol("c13.range_fmt", format!("panic:{},{fam_name}", pn.class()), args, "Ok or Err".into(), format!("panic at {}: {}", pn.loc, pn.msg)),
    }
}

// ---------------------------------------------------------------------------------------------
// string lattices

pub fn alphabet(p: usize) -> Vec<&'static str> {
    // 2-, 3- and 4-byte characters, one per predicate class the parsers use: letters, non-ASCII digits (is_numeric but
    // not is_ascii_digit), multi-byte white space (is_whitespace; trim() removes it), and letters whose case mapping
    // changes the byte length
    let common = vec!["μ", "€", "𝟑", "٣", "\u{a0}", "\u{2003}", "７", "ß", "İ"];
    let mut v: Vec<&'static str> = match p {
        0 | 1 => vec!["0", "1", "9", "-", ":", "T", " ", ".", "Z", "+", "J", "D", "M", "S", "E", "C", "U", "A", "I"],
        2 | 7 => vec!["%", "Y", "m", "d", "H", "M", "S", "f", "T", "z", "j", "J", "w", "a", "A", "b", "B", "y", "?", "-", " ", ":", "x"],
        3 => vec!["0", "1", "9", "-", "+", ":", ".", " ", "d", "h", "m", "s", "n", "u", "e", "E", "i", "a"],
        4 => vec!["U", "T", "C", "A", "I", "G", "P", "S", "D", "B", "E", "Q", "Z", " ", "L"],
        5 => vec!["m", "M", "o", "O", "n", "N", "s", "S", "u", "U", "d", "a", "y", " ", "f", "r", "i", "t", "h", "w", "e"],
        _ => vec!["j", "J", "a", "A", "n", "N", "u", "U", "m", "M", "y", "Y", "r", " ", "l", "g", "s", "e", "p", "o", "c", "t", "v", "d", "b", "f"],
    };
    v.extend(common);
    v
}

pub fn seeds(p: usize) -> Vec<&'static str> {
    match p {
        0 => vec![
            "2017-01-14T00:31:55 UTC",
            "JD -1e19 TAI",
            "MJD -1e300 UTC",
            "JD -9223372036854775808 UTC",
            "SEC -1e19 TT",
            "MJD 9223372036854775808 GPST",
            "2017-01-14T00:31:55.0811200 TAI",
            "2017-01-14 00:31:55",
            "1994-11-05T08:15:30-05:00",
            "1994-11-05T13:15:30Z",
            "2018-02-13T23:08:32.123456789+01:30 GPST",
            "JD 2452312.500372511 TDB",
            "JD 2452312.5 ET",
            "MJD 51544.5 TAI",
            "MJD 51544.5 GPST",
            "SEC 66312032.18493909 TDB",
            "SEC 0.5 QZSST",
            "SEC -17 UTC",
            "0001-01-01T00:00:00 ET",
            "2016-12-31T23:59:60 UTC",
        ],
        1 => vec!["2017-01-14T00:31:55 UTC", "2017-01-14T00:31:55.0811200 TAI", "2017-01-14 00:31:55", "1994-11-05T08:15:30-05:00", "1994-11-05T13:15:30Z", "2018-02-13T23:08:32.123456789+01:30 GPST", "2015-02-07T11:22:33.0 QZSST"],
        2 | 7 => vec!["%Y-%m-%dT%H:%M:%S.%f %T", "%Y-%m-%d", "%a, %d %b %Y %H:%M:%S", "%A, %d %B %Y %H:%M:%S", "%Y-%jT%H:%M:%S", "%Y-%m-%dT%H:%M:%S.%f%z", "%y %J %w", "%Y-%m-%dT%H:%M:%S.%f? %T?", "%Y%m%d%H%M%S%f%T%z%j%J%w%a%A%b%B"],
        3 => vec!["1 d", "10.598 days", "5 h 256 ms 1 ns", "-01:15:30", "+3615", "-5 h 256 ms 1 ns", "1 day 99 ns", "36525 days 1 min 39 s", "10 μs", "-61 μs", "2.5 hours 3 mins", "0 ns", "+01", "1e3 s"],
        4 => vec!["UTC", "TAI", "TT", "ET", "TDB", "GPST", "GPS", "GST", "GAL", "BDT", "BDS", "QZSST", "QZSS", " UTC "],
        5 => vec!["mon", "Monday", "TUE", "wednesday", "Thu", "FRIDAY", "sat", "Sunday"],
        _ => vec!["jan", "January", "FEB", "march", "Apr", "MAY", "jun", "July", "aug", "September", "OCT", "november", "Dec"],
    }
}

/// inputs that match the format seeds (same index)
pub fn format_inputs() -> Vec<(&'static str, &'static str)> {
    vec![
        ("%Y-%m-%dT%H:%M:%S.%f %T", "2015-02-07T11:22:33.0 UTC"),
        ("%Y-%m-%d", "2015-02-07"),
        ("%a, %d %b %Y %H:%M:%S", "Sat, 07 Feb 2015 11:22:33"),
        ("%A, %d %B %Y %H:%M:%S", "Saturday, 07 February 2015 11:22:33"),
        ("%Y-%jT%H:%M:%S", "2023-117T12:55:26"),
        ("%Y-%m-%dT%H:%M:%S.%f%z", "2015-02-07T11:22:33.000000000+01:00"),
        ("%y %J %w", "15 59.5 3"),
        ("%Y-%m-%dT%H:%M:%S.%f? %T?", "2015-02-07T11:22:33 TAI"),
        ("%Y-%m-%d %H:%M:%S %T", "2015-02-07 11:22:33 GPST"),
        ("%d/%m/%Y %H.%M.%S", "07/02/2015 11.22.33"),
        // exactly MAX_TOKENS = 16 tokens, with inputs that supply 15, 16 and 17 fields
        ("%Y-%m-%d %H:%M:%S %Y-%m-%d %H:%M:%S %Y-%m-%d %H", "2020-01-02 03:04:05 2020-01-02 03:04:05 2020-01-02 03"),
        ("%Y-%m-%d %H:%M:%S %Y-%m-%d %H:%M:%S %Y-%m-%d %H", "2020-01-02 03:04:05 2020-01-02 03:04:05 2020-01-02 03 1"),
        ("%Y-%m-%d %H:%M:%S %Y-%m-%d %H:%M:%S %Y-%m-%d %H", "2020-01-02 03:04:05 2020-01-02 03:04:05 2020-01-02"),
        ("%Y-%m-%dT%H:%M:%S.%f %T %j %J %b %B %a %A %y", "2015-02-07T11:22:33.5 UTC 038 38.5 Feb February Sat Saturday 15"),
        // 15 tokens and one more field than tokens
        ("%Y-%m-%d %H:%M:%S %Y-%m-%d %H:%M:%S %Y-%m-%d", "2020-01-02 03:04:05 2020-01-02 03:04:05 2020-01-02 03"),
        // fewer fields than tokens, more fields than tokens, short formats
        ("%Y-%m-%d", "2015-02-07 11:22:33"),
        ("%Y-%m-%d %H:%M:%S", "2015-02-07"),
        ("%H:%M", "11:22:33:44:55"),
    ]
}

pub fn numeric_extremes() -> Vec<String> {
    let mut v: Vec<String> = vec!["0", "00", "2147483647", "2147483648", "4294967295", "4294967296", "1e400", "1e-400", "inf", "nan", "-0", "infinity", "NaN", "-inf", "1e308", "9e99", "0x10", "1_000", "٣", "𝟑", "-1e19", "-1e300", "-9223372036854775808", "9223372036854775808", "-9223372036854775809", "1e19", "-2147483649", "18446744073709551616"].into_iter().map(String::from).collect();
    for n in [1usize, 2, 3, 5, 9, 10, 11, 19, 20, 25, 39, 40] {
        v.push("9".repeat(n));
    }
    v
}

/// all strings with exactly `len` symbols over the alphabet, by index
pub fn nth_string(alpha: &[&str], len: usize, mut i: u64) -> String {
    let n = alpha.len() as u64;
    let mut s = String::new();
    for _ in 0..len {
        s.push_str(alpha[(i % n) as usize]);
        i /= n;
    }
    s
}

/// single-point mutants of a seed
pub fn mutants1(seed: &str, alpha: &[&str]) -> Vec<String> {
    let chars: Vec<char> = seed.chars().collect();
    let mut v = vec![seed.to_string()];
    for i in 0..=chars.len() {
        // truncate at i
        v.push(chars[..i].iter().collect());
        // insert
        for a in alpha {
            let mut s: String = chars[..i].iter().collect();
            s.push_str(a);
            s.extend(chars[i..].iter());
            v.push(s);
        }
        if i < chars.len() {
            // delete
            let mut s: String = chars[..i].iter().collect();
            s.extend(chars[i + 1..].iter());
            v.push(s);
            // substitute
            for a in alpha {
                let mut s: String = chars[..i].iter().collect();
                s.push_str(a);
                s.extend(chars[i + 1..].iter());
                v.push(s);
            }
        }
    }
    v
}

/// numeric extremes spliced into every maximal digit run of the seed
pub fn splices(seed: &str, ext: &[String]) -> Vec<String> {
    let chars: Vec<char> = seed.chars().collect();
    let mut runs = vec![];
    let mut i = 0;
    while i < chars.len() {
        if chars[i].is_ascii_digit() {
            let st = i;
            while i < chars.len() && (chars[i].is_ascii_digit() || (chars[i] == '.' && i + 1 < chars.len() && chars[i + 1].is_ascii_digit() && st != i)) {
                i += 1;
            }
            runs.push((st, i));
        } else {
            i += 1;
        }
    }
    let mut v = vec![];
    for (a, b) in runs {
        for e in ext {
            let mut s: String = chars[..a].iter().collect();
            s.push_str(e);
            s.extend(chars[b..].iter());
            v.push(s);
        }
    }
    v
}

pub fn corpus(p: usize, double: bool, double_max_len: usize) -> Vec<String> {
    let alpha = alphabet(p);
    let ext = numeric_extremes();
    let mut v: Vec<String> = vec![String::new(), " ".into(), "\t\n".into(), "\u{0}".into(), "a".repeat(1000), "9".repeat(1000), "μ".repeat(7), " ".repeat(7) + "μ"];
    // long inputs made of many well-formed pieces (a fixed-size scratch table overflows by count, not by length)
    for n in [8usize, 9, 15, 16, 17, 31, 32, 33, 63, 64, 65, 127, 128, 129, 255, 256, 257, 1000, 4097] {
        v.push((1..=n).map(|i| format!("{i} ms")).collect::<Vec<_>>().join(" "));
        v.push((1..=n).map(|i| format!("{} {}", i % 7, ["d", "h", "min", "s", "ms", "us", "ns"][i % 7])).collect::<Vec<_>>().join(" "));
        v.push("%Y".repeat(n));
        v.push(format!("2017-01-14T00:31:55.{} UTC", "1".repeat(n)));
        v.push(format!("{}2017-01-14T00:31:55 UTC", " ".repeat(n)));
        v.push(format!("JD {}.5 TAI", "1".repeat(n)));
        v.push(format!("1.{} d", "3".repeat(n)));
    }
    for seed in seeds(p) {
        let m1 = mutants1(seed, &alpha);
        v.extend(splices(seed, &ext));
        if double && seed.chars().count() <= double_max_len {
            // double mutants: a reduced alphabet for the second point keeps the space finite and focused
            let small: Vec<&str> = alpha.iter().copied().filter(|a| !a.is_ascii() || [" ", "-", "0", ":", "%", ".", "9", "Z", "T"].contains(a)).collect();
            for m in &m1 {
                if m.chars().count() + 1 >= seed.chars().count() {
                    v.extend(mutants1(m, &small));
                }
            }
        }
        v.extend(m1);
    }
    v.sort();
    v.dedup();
    v
}

pub fn run(rep: &mut Report) {
    let q = rep.quick();
    rep.rule = "per parser: every string of up to L symbols over an alphabet built from the characters the parser compares against plus 2-, 3- and 4-byte characters and non-ASCII digits (L = 4 quick, 5 thorough); a grammar-derived seed corpus closed under all single-point mutations (delete, truncate, substitute, insert over the alphabet), under double-point mutations (quick: seeds <= 16 chars; thorough: <= 40), and with numeric extremes spliced into every numeric field; for the two-argument entry points the product of mutated formats and mutated inputs, and structured pairs: every format of 1-2 tokens x 57 separator strings, every 3-token format and formats of 14..17 tokens, each against the real formatter's own output and five field-count variants of it (one field more, one character less, half, padded). Second clause: well-formed text from the full product of boundary field values must be rejected when a field is out of range - through Epoch::from_str / from_gregorian_str and, through Format::parse, for calendar text with a trailing character, RFC 3339 offsets, ordinal dates with and without a time of day, a sign in front of every numeric field, and month / day fields overridden by a day of year, a repetition or a month name. Oracle: the call returns Ok or Err (panics are caught under overflow checks; a watchdog bounds the time). Non-trivial = non-ASCII or longer than 6 bytes.".into();
    rep.assumptions = vec!["arbitrary UTF-8 is approximated by the alphabets and mutation operators described; see DESIGN.md §8".into()];
    let l = if q { 4 } else { 5 };
    rep.bound("max_len_all_strings", l as u64);
    for p in 0..7 {
        let alpha = alphabet(p);
        let n = alpha.len() as u64;
        for len in 1..=l {
            let total = n.pow(len as u32);
            let a = &alpha;
            sweep_named(rep, &format!("c13.all[{},len={len}]", PARSERS[p]), total, |i, out| j_total(p, &nth_string(a, len, i), out), |i| vec![p.to_string(), nth_string(a, len, i)]);
        }
        let c = corpus(p, true, if q { 16 } else { 40 });
        let cr = &c;
        sweep_named(rep, &format!("c13.corpus[{}]", PARSERS[p]), c.len() as u64, |i, out| j_total(p, &cr[i as usize], out), |i| vec![p.to_string(), cr[i as usize].clone()]);
    }
    // from_gregorian_str also sees the from_str corpus and vice versa
    let c0 = corpus(0, false, 0);
    sweep_named(rep, "c13.corpus[from_gregorian_str<-from_str]", c0.len() as u64, |i, out| j_total(1, &c0[i as usize], out), |i| vec!["1".into(), c0[i as usize].clone()]);
    // two-argument entry points
    let fa = alphabet(2);
    let ia = alphabet(0);
    let mut pairs: Vec<(String, String)> = vec![];
    for (f, s) in format_inputs() {
        let fm = mutants1(f, &fa);
        let im = mutants1(s, &ia);
        if q {
            // mutate one side at a time
            for x in &fm {
                pairs.push((x.clone(), s.to_string()));
            }
            for y in &im {
                pairs.push((f.to_string(), y.clone()));
            }
        } else {
            for x in fm.iter().step_by(3) {
                for y in im.iter().step_by(5) {
                    pairs.push((x.clone(), y.clone()));
                }
            }
            for x in &fm {
                pairs.push((x.clone(), s.to_string()));
            }
            for y in &im {
                pairs.push((f.to_string(), y.clone()));
            }
        }
        for y in splices(s, &numeric_extremes()) {
            pairs.push((f.to_string(), y));
        }
    }
    // every format seed against every input seed
    for f in seeds(2) {
        for (_, s) in format_inputs() {
            pairs.push((f.to_string(), s.to_string()));
        }
        for s in seeds(0) {
            pairs.push((f.to_string(), s.to_string()));
        }
    }
    pairs.sort();
    pairs.dedup();
    rep.bound("format_input_pairs", pairs.len() as u64);
    let pr = &pairs;
    sweep_named(rep, "c13.total2", pairs.len() as u64, |i, out| j_total2(&pr[i as usize].0, &pr[i as usize].1, out), |i| vec![pr[i as usize].0.clone(), pr[i as usize].1.clone()]);
    // structured pairs: all formats of 1-2 tokens x 57 separator strings, 3-token formats, and long formats of
    // 14..17 tokens, each against the formatter's own output and five field-count variants of it
    {
        use super::c19::TOKENS;
        let cs: [i128; 3] = [3_155_716_800_000_000_037, 1_423_308_153_500_000_000, 3_692_217_599_999_999_999];
        crate::engine::sweep(rep, "c13.structured[len1-2]", (17 + 17 * 17 * 57) * 3 * 6, |i, out| {
            let v = (i % 6) as usize;
            let c = cs[((i / 6) % 3) as usize];
            let j = i / 18;
            if j < 17 {
                j_structured(&[TOKENS[j as usize]], &[], c, v, out)
            } else {
                let k = j - 17;
                j_structured(&[TOKENS[(k / (17 * 57)) as usize], TOKENS[((k / 57) % 17) as usize]], &[(k % 57) as usize], c, v, out)
            }
        });
        crate::engine::sweep(rep, "c13.structured[len3]", 17 * 17 * 17 * 3 * 6, |i, out| {
            let v = (i % 6) as usize;
            let s = [1usize, 2, 9][((i / 6) % 3) as usize];
            let t = i / 18;
            j_structured(&[TOKENS[(t / 289) as usize], TOKENS[((t / 17) % 17) as usize], TOKENS[(t % 17) as usize]], &[s, 2], cs[(t % 3) as usize], v, out)
        });
        // long formats: numeric tokens repeated to 14..17 tokens, all rotations, several separators
        let cyc = ['Y', 'm', 'd', 'H', 'M', 'S', 'f', 'j'];
        crate::engine::sweep(rep, "c13.structured[len14-17]", 4 * 8 * 4 * 6, |i, out| {
            let v = (i % 6) as usize;
            let s = [1usize, 2, 3, 9][((i / 6) % 4) as usize];
            let rot = ((i / 24) % 8) as usize;
            let len = 14 + (i / 192) as usize;
            let toks: Vec<char> = (0..len).map(|k| cyc[(k + rot) % 8]).collect();
            j_structured(&toks, &[s], cs[rot % 3], v, out)
        });
    }
    // year magnitude scan: a geometric lattice of years up to beyond 2^32 (ratio 1.0005 quick / 1.0001 thorough, so every
    // band of years whose relative width exceeds the ratio is hit), as text through the three Gregorian entry points
    let ratio = if q { 1.0005f64 } else { 1.0001 };
    let mut ys: Vec<u64> = vec![];
    let mut y = 1u64;
    while y < 5_000_000_000 {
        ys.push(y);
        y = ((y as f64 * ratio) as u64).max(y + 1);
    }
    rep.bound("year_scan", format!("{} years, geometric ratio {ratio}", ys.len()));
    // order independence (depth-2 operation sequences on one thread): every parser on valid and invalid text, in every
    // order (a parser that keeps scratch state - a cursor, a partially filled field array - between calls)
    {
        let texts: [(usize, &str); 24] = [
            (0, "2017-01-14T00:31:55 UTC"), (0, "2016-12-31T23:59:60 UTC"), (0, "2017-13-14T00:31:55 UTC"), (0, "JD 2452312.5 TDB"), (0, "SEC 66312032.18493909 TDB"), (0, "2018-02-13T23:08:32.5+01:30"), (0, ""), (0, "1900-01-01"),
            (1, "2017-01-14T00:31:55.0811200 TAI"), (1, "2017-02-30T00:00:00"), (1, "x"), (3, "1 d 2 h 3 min 4 s 5 ms 6 us 7 ns"), (3, "-0.5 d"), (3, "+01:30"), (3, "5 dogs"), (3, "-"),
            (2, "%Y-%m-%dT%H:%M:%S"), (2, "%"), (2, "%Y%m%d%H%M%S%f%T%z%j%A%a%B%b%y%J%w"), (4, "GPST"), (4, "nope"), (5, "Monday"), (6, "December"), (6, "Dec"),
        ];
        crate::engine::order_pairs(rep, "c13.order", texts.len() as u64 + 8, |i, out| {
            if (i as usize) < texts.len() {
                let (p, t) = texts[i as usize];
                j_total(p, t, out)
            } else {
                let k = (i as usize - texts.len()) % 8;
                j_total2(["%Y-%m-%d %H:%M:%S", "%a, %d %b %Y %H:%M:%S", "%Y-%j", "%Y-%m-%d %j"][k % 4], ["2017-01-14 00:31:55", "Sat, 14 Jan 2017 00:31:55", "2017-014", "2017-02-31 060", "2017-01-14 014", "garbage", "2016-12-31 23:59:60", "Sun, 14 Jan 2017 00:31:55"][k], out)
            }
        });
    }
    crate::engine::sweep(rep, "c13.year_scan", ys.len() as u64 * 4, |i, out| {
        let y = ys[(i / 4) as usize];
        match i % 4 {
            0 => j_total(0, &format!("{y}-06-15T12:30:45 UTC"), out),
            1 => j_total(1, &format!("{y:04}-01-01T00:00:00 TAI"), out),
            2 => j_total(0, &format!("-{y}-12-31T23:59:59 GPST"), out),
            _ => j_total2("%Y-%m-%d", &format!("{y}-12-31"), out),
        }
    });
    // out-of-range fields
    // (2016, 2015, 1972: years with a leap second at the end of December / June / both)
    let years = [1i32, 1900, 1972, 2000, 2015, 2016, 2023, 2024, 9999];
    let months = [0u32, 1, 2, 4, 6, 12, 13, 99];
    let days = [0u32, 1, 28, 29, 30, 31, 32, 99];
    let hours = [0u32, 23, 24, 25, 99];
    let mins = [0u32, 59, 60, 99];
    let secs = [0u32, 59, 60, 61, 99];
    let dims = [5usize, years.len(), months.len(), days.len(), hours.len(), mins.len(), secs.len()];
    let total: u64 = dims.iter().map(|d| *d as u64).product();
    rep.bound("range_product", format!("{dims:?} = {total}"));
    // the same clause through Format::parse
    let mut rf: Vec<(usize, [i64; 6])> = vec![];
    for fam in 0..3usize {
        for y in [2018i64, 2024] {
            for h in [0i64, 23, 24, 25, 99] {
                for mi in [0i64, 59, 60, 99] {
                    for sc in [0i64, 32, 59, 60, 61, 99] {
                        for tail in 0..3i64 {
                            rf.push((fam, [y, h, mi, sc, tail, 0]));
                        }
                    }
                }
            }
        }
    }
    for oh in [0i64, 1, 12, 23, 24, 25, 99] {
        for om in [0i64, 30, 59, 60, 61, 99] {
            for sg in 0..2i64 {
                rf.push((3, [oh, om, sg, 0, 0, 0]));
            }
        }
    }
    for y in [1900i64, 2000, 2023, 2024, 2100] {
        for j in [0i64, 1, 59, 60, 365, 366, 367, 400, 999] {
            for ord in 0..3i64 {
                rf.push((4, [y, j, ord, 0, 0, 0]));
            }
            for (h, mi, sc) in [(0i64, 0i64, 0i64), (12, 55, 60), (23, 59, 59), (23, 59, 60), (24, 0, 0), (25, 0, 0), (12, 60, 0), (12, 0, 61)] {
                rf.push((6, [y, j, h, mi, sc, 0]));
            }
        }
        for t in [-5i64, 0, 5, 9, 10, 15, 3650, 3655, 3659, 3660, 3665, 3669, 3670, 4000, 99_999] {
            rf.push((5, [y, t, 0, 0, 0, 0]));
        }
    }
    for (f, nf) in [6i64, 6, 6, 5, 3].into_iter().enumerate() {
        for k in 0..nf {
            rf.push((7, [f as i64, k, 0, 0, 0, 0]));
        }
    }
    for f in 0..4i64 {
        for mo in [0i64, 1, 2, 3, 12, 13, 99] {
            for d in [0i64, 1, 28, 29, 30, 31, 32, 99] {
                rf.push((8, [f, mo, d, 0, 0, 0]));
            }
        }
    }
    for f in 0..4i64 {
        for j in [1i64, 2, 100, 181, 182, 183, 365, 366] {
            rf.push((9, [f, j, 0, 0, 0, 0]));
        }
    }
    for f in 0..4i64 {
        for a in [0i64, 1, 2, 365, 366, 400, 999] {
            for b in [1i64, 365, 366] {
                rf.push((10, [f, a, b, 0, 0, 0]));
            }
        }
    }
    rep.bound("range_through_format_parse", rf.len() as u64);
    crate::engine::sweep(rep, "c13.range_fmt", rf.len() as u64, |i, out| j_range_fmt(rf[i as usize].0, rf[i as usize].1, out));
    // second 60 on the last and the last-but-one day of June and December of EVERY year 1958..=2045 (the two year tables
    // of the validity predicate, entry by entry), through every text form
    let s60: Vec<(i32, u32, u32)> = (1958..=2045).flat_map(|y| [(y, 6u32, 30u32), (y, 6, 29), (y, 12, 31), (y, 12, 30)]).collect();
    rep.bound("second_60_year_scan", s60.len() as u64 * 5);
    crate::engine::sweep(rep, "c13.range[second-60-scan]", s60.len() as u64 * 5, |i, out| {
        let (y, m, d) = s60[(i / 5) as usize];
        j_range((i % 5) as usize, y, m, d, 23, 59, 60, out)
    });
    crate::engine::sweep(rep, "c13.range", total, |i, out| {
        let mut r = i;
        let mut idx = [0usize; 7];
        for k in (0..7).rev() {
            idx[k] = (r % dims[k] as u64) as usize;
            r /= dims[k] as u64;
        }
        j_range(idx[0], years[idx[1]], months[idx[2]], days[idx[3]], hours[idx[4]], mins[idx[5]], secs[idx[6]], out)
    });
}

pub fn replay(check: &str, a: &[String], out: &mut Local) -> bool {
    match check {
        "c13.total" => j_total(a[0].parse().unwrap(), &a[1], out),
        "c13.total2" => j_total2(&a[0], &a[1], out),
        "c13.range_fmt" => {
            let mut v = [0i64; 6];
            for k in 0..6 {
                v[k] = a[k + 1].parse().unwrap();
            }
            j_range_fmt(a[0].parse().unwrap(), v, out)
        }
        "c13.range" => j_range(a[0].parse().unwrap(), a[1].parse().unwrap(), a[2].parse().unwrap(), a[3].parse().unwrap(), a[4].parse().unwrap(), a[5].parse().unwrap(), a[6].parse().unwrap(), out),
        _ => return false,
    }
    true
}
