//! C05 TAI/TT/GPST/QZSST/GST/BDT conversions are exact, constant-offset and invertible.
use super::common::*;
use crate::engine::{bfs, sweep, SeqSpec};
use crate::lattice;
use crate::oracle::dur::*;
use crate::oracle::scales::*;
use crate::oracle::ulp::within_ulps;
use crate::report::{guard, Local, Report};
use hifitime::{Duration, Epoch, TimeScale, Unit};

fn named_accessor(e: &Epoch, dst: TimeScale) -> Duration {
    match dst {
        TimeScale::TAI => e.to_tai_duration(),
        TimeScale::TT => e.to_tt_duration(),
        TimeScale::GPST => e.to_gpst_duration(),
        TimeScale::QZSST => e.to_qzsst_duration(),
        TimeScale::GST => e.to_gst_duration(),
        TimeScale::BDT => e.to_bdt_duration(),
        _ => unreachable!(),
    }
}
fn named_ctor(d: Duration, ts: TimeScale) -> Epoch {
    match ts {
        TimeScale::TAI => Epoch::from_tai_duration(d),
        TimeScale::TT => Epoch::from_tt_duration(d),
        TimeScale::GPST => Epoch::from_gpst_duration(d),
        TimeScale::QZSST => Epoch::from_qzsst_duration(d),
        TimeScale::GST => Epoch::from_gst_duration(d),
        TimeScale::BDT => Epoch::from_bdt_duration(d),
        _ => unreachable!(),
    }
}

pub fn j_conv(src: TimeScale, dst: TimeScale, c: i128, out: &mut Local) {
    let want = convert_uniform(c, src, dst);
    let args = vec![scale_name(src).to_string(), scale_name(dst).to_string(), enc(c)];
    // "as long as no duration bound is hit": within two centuries of the ends a conversion (whose TAI intermediate may
    // not be representable) is not judged - except the identity, which involves no other scale and no bound
    if src != dst && !(DMIN + 2 * NPC..=DMAX - 2 * NPC).contains(&want) {
        out.dc(0);
        return;
    }
    let r = guard(|| {
        let e = named_ctor(mk(c), src);
        let r = e.to_time_scale(dst);
        let back = r.to_time_scale(src);
        // the two other spellings of the TAI view, and the parts constructor
        let tai_views = if dst == TimeScale::TAI {
            let (pc, pn) = e.to_tai_parts();
            Some((e.to_duration_since_j1900(), Duration::from_parts(pc, pn), Epoch::from_tai_parts(pc, pn)))
        } else {
            None
        };
        (e, r, e.to_duration_in_time_scale(dst), named_accessor(&e, dst), back, tai_views)
    });
    let pair = format!("{}->{}", scale_name(src), scale_name(dst));
    match r {
        Ok((e, r, d2, d3, back, tai_views)) => {
            if let Some((j1900, parts, from_parts)) = tai_views {
                if alpha(j1900) != want || alpha(parts) != want || from_parts.time_scale != TimeScale::TAI || alpha(from_parts.duration) != want {
                    out.viol("c05.conv", format!("tai-parts-or-j1900-view-differs,{}", scale_name(src)), args, describe(want), format!("to_duration_since_j1900 {} / to_tai_parts {} / from_tai_parts {}", alpha(j1900), alpha(parts), alpha(from_parts.duration)));
                    return;
                }
            }
            if e.time_scale != src || alpha(e.duration) != c {
                out.viol("c05.conv", format!("ctor-wrong,{}", scale_name(src)), args, format!("{} {}", scale_name(src), c), format!("{} {}", scale_name(e.time_scale), alpha(e.duration)));
            } else if r.time_scale != dst {
                out.viol("c05.conv", format!("scale-label-wrong,{pair}"), args, scale_name(dst).into(), scale_name(r.time_scale).into());
            } else if alpha(r.duration) != want || !canonical(r.duration) {
                out.viol("c05.conv", format!("offset-wrong,{pair},diff={}", diffclass(alpha(r.duration), want)), args, describe(want), describe(alpha(r.duration)));
            } else if alpha(d2) != want {
                out.viol("c05.conv", format!("to_duration_in_time_scale-differs,{pair}"), args, describe(want), describe(alpha(d2)));
            } else if alpha(d3) != want {
                out.viol("c05.conv", format!("named-accessor-differs,{}", scale_name(dst)), args, describe(want), describe(alpha(d3)));
            } else if back.time_scale != src || alpha(back.duration) != c {
                out.viol("c05.conv", format!("round-trip,{pair},diff={}", diffclass(alpha(back.duration), c)), args, describe(c), describe(alpha(back.duration)));
            } else {
                let near = |v: i128| v.rem_euclid(NPC) < NS_S || v.rem_euclid(NPC) > NPC - NS_S || v.abs() < NS_S;
                let nt = src != dst && (near(c) || near(want));
                out.ok(5, nt, (src as u64) * 9 + dst as u64);
                if out.want_sample(nt) {
                    out.sample("c05.conv", args, format!("{} {} = {} {}", describe(c), scale_name(src), describe(want), scale_name(dst)), nt);
                }
            }
        }
        Err(p) => out.viol("c05.conv", format!("panic:{},{pair}", p.class()), args, "no panic".into(), format!("{} {}", p.loc, p.msg)),
    }
}

/// conversion commutes with adding a duration
pub fn j_commute(src: TimeScale, dst: TimeScale, c: i128, d: i128, out: &mut Local) {
    let want = convert_uniform(c, src, dst) + d;
    let args = vec![scale_name(src).to_string(), scale_name(dst).to_string(), enc(c), enc(d)];
    if !(DMIN + 2 * NPC..=DMAX - 2 * NPC).contains(&want) {
        out.dc(0);
        return;
    }
    let r = guard(|| {
        let e = Epoch::from_duration(mk(c), src);
        ((e + mk(d)).to_time_scale(dst), e.to_time_scale(dst) + mk(d))
    });
    match r {
        Ok((a, b)) => {
            if alpha(a.duration) == want && alpha(b.duration) == want && a.time_scale == dst && b.time_scale == dst {
                out.ok(4, true, (src as u64) * 9 + dst as u64);
                if out.want_sample(true) {
                    out.sample("c05.commute", args, format!("both = {}", describe(want)), true);
                }
            } else {
                out.viol("c05.commute", format!("differs,{}->{}", scale_name(src), scale_name(dst)), args, describe(want), format!("{} vs {}", describe(alpha(a.duration)), describe(alpha(b.duration))));
            }
        }
        Err(p) => out.viol("c05.commute", format!("panic:{}", p.class()), args, "no panic".into(), p.msg),
    }
}

/// public constants and reference epochs against the derived values
pub fn j_consts(i: u64, out: &mut Local) {
    let gz = zero_tai(TimeScale::GPST).unwrap();
    let ez = zero_tai(TimeScale::GST).unwrap();
    let bz = zero_tai(TimeScale::BDT).unwrap();
    let (name, got, want): (&str, i128, i128) = match i {
        0 => ("GPST_REF_EPOCH", alpha(hifitime::GPST_REF_EPOCH.to_tai_duration()), gz),
        1 => ("QZSST_REF_EPOCH", alpha(hifitime::QZSST_REF_EPOCH.to_tai_duration()), gz),
        2 => ("GST_REF_EPOCH", alpha(hifitime::GST_REF_EPOCH.to_tai_duration()), ez),
        3 => ("BDT_REF_EPOCH", alpha(hifitime::BDT_REF_EPOCH.to_tai_duration()), bz),
        4 => ("SECONDS_GPS_TAI_OFFSET", (hifitime::SECONDS_GPS_TAI_OFFSET * 1e9) as i128, gz),
        5 => ("SECONDS_GPS_TAI_OFFSET_I64", hifitime::SECONDS_GPS_TAI_OFFSET_I64 as i128 * NS_S, gz),
        6 => ("SECONDS_GST_TAI_OFFSET", (hifitime::SECONDS_GST_TAI_OFFSET * 1e9) as i128, ez),
        7 => ("SECONDS_GST_TAI_OFFSET_I64", hifitime::SECONDS_GST_TAI_OFFSET_I64 as i128 * NS_S, ez),
        8 => ("SECONDS_BDT_TAI_OFFSET", (hifitime::SECONDS_BDT_TAI_OFFSET * 1e9) as i128, bz),
        9 => ("SECONDS_BDT_TAI_OFFSET_I64", hifitime::SECONDS_BDT_TAI_OFFSET_I64 as i128 * NS_S, bz),
        10 => ("DAYS_GPS_TAI_OFFSET", (hifitime::DAYS_GPS_TAI_OFFSET * 86_400.0 * 1e9).round() as i128, gz),
        11 => ("J1900_REF_EPOCH", alpha(hifitime::J1900_REF_EPOCH.to_tai_duration()), 12 * 3600 * NS_S),
        12 => ("J2000_REF_EPOCH", alpha(hifitime::J2000_REF_EPOCH.to_tai_duration()), NPC + 12 * 3600 * NS_S),
        13 => ("UNIX_REF_EPOCH", alpha(hifitime::UNIX_REF_EPOCH.to_tai_duration()), crate::oracle::civil::days1900(1970, 1, 1) as i128 * DAY),
        14..=19 => {
            let ts = UNIFORM[(i - 14) as usize];
            ("reference_epoch", alpha(ts.reference_epoch().to_time_scale(TimeScale::TAI).duration), zero_tai(ts).unwrap())
        }
        _ => {
            let ts = UNIFORM[(i - 20) as usize];
            let e = ts.reference_epoch();
            ("reference_epoch.count", alpha(e.duration) + (e.time_scale != ts) as i128, 0)
        }
    };
    let args = vec![i.to_string()];
    if got == want {
        out.ok(1, true, i);
        out.sample("c05.consts", args, format!("{name} = {want}"), true);
    } else {
        out.viol("c05.consts", format!("{name}-wrong"), args, enc(want), enc(got));
    }
}

/// the zero of each scale is the documented civil date, 00:00:00 in the scale itself
pub fn j_refdate(ts: TimeScale, out: &mut Local) {
    let (y, m, d) = match ts {
        TimeScale::TAI | TimeScale::TT => (1900, 1, 1),
        TimeScale::GPST | TimeScale::QZSST => (1980, 1, 6),
        TimeScale::GST => (1999, 8, 22),
        TimeScale::BDT => (2006, 1, 1),
        _ => unreachable!(),
    };
    let args = vec![scale_name(ts).to_string()];
    let r = guard(|| {
        let built = Epoch::maybe_from_gregorian(y, m, d, 0, 0, 0, 0, ts).map(|e| (alpha(e.duration), e.time_scale));
        let shown = format!("{}", ts.reference_epoch());
        let one = format!("{}", ts.reference_epoch() + Unit::Nanosecond * 1);
        (built, shown, one)
    });
    let want = format!("{y:04}-{m:02}-{d:02}T00:00:00 {}", scale_name(ts));
    let want1 = format!("{y:04}-{m:02}-{d:02}T00:00:00.000000001 {}", scale_name(ts));
    match r {
        Ok((Ok((0, t)), shown, one)) if t == ts && shown == want && one == want1 => {
            out.ok(3, true, ts as u64);
            out.sample("c05.refdate", args, want, true);
        }
        Ok((b, shown, one)) => out.viol("c05.refdate", format!("zero-date-wrong,{}", scale_name(ts)), args, format!("count 0 and {want}"), format!("{b:?} / {shown} / {one}")),
        Err(p) => out.viol("c05.refdate", format!("panic:{}", p.class()), args, "no panic".into(), p.msg),
    }
}

/// float views of the uniform scales (seconds / days since the scale's zero)
pub fn j_float(ts: TimeScale, c: i128, out: &mut Local) {
    let e = Epoch::from_duration(mk(c), TimeScale::TAI);
    let want = convert_uniform(c, TimeScale::TAI, ts);
    let r = guard(|| match ts {
        TimeScale::TAI => (e.to_tai_seconds(), e.to_tai_days(), e.to_tai(Unit::Hour)),
        TimeScale::TT => (e.to_tt_seconds(), e.to_tt_days(), e.to_tt_seconds() / 3600.0),
        TimeScale::GPST => (e.to_gpst_seconds(), e.to_gpst_days(), e.to_gpst_seconds() / 3600.0),
        TimeScale::QZSST => (e.to_qzsst_seconds(), e.to_qzsst_days(), e.to_qzsst_seconds() / 3600.0),
        TimeScale::GST => (e.to_gst_seconds(), e.to_gst_days(), e.to_gst_seconds() / 3600.0),
        TimeScale::BDT => (e.to_bdt_seconds(), e.to_bdt_days(), e.to_bdt_seconds() / 3600.0),
        _ => unreachable!(),
    });
    let args = vec![scale_name(ts).to_string(), enc(c)];
    match r {
        Ok((s, d, h)) => {
            let (ok1, d1) = within_ulps(s, want, NS_S, 8, 1.0);
            let (ok2, d2) = within_ulps(d, want, NS_DAY, 8, 1.0 / 86_400.0);
            let (ok3, _) = within_ulps(h, want, 3600 * NS_S, 10, 1.0 / 3600.0);
            if !ok3 {
                out.viol("c05.float", format!("off,{},hours", scale_name(ts)), args, format!("{want} ns"), format!("{h:e} h"));
            } else if ok1 && ok2 {
                out.ok(2, want < 0, ts as u64);
                out.metric_max("float_view_max_ulps", d1.max(d2));
            } else {
                out.viol("c05.float", format!("off,{},{}", scale_name(ts), if !ok1 { "seconds" } else { "days" }), args, format!("{want} ns"), format!("{s:e} s ({d1:.1} ulp), {d:e} days ({d2:.1} ulp)"));
            }
        }
        Err(p) => out.viol("c05.float", format!("panic:{}", p.class()), args, "no panic".into(), p.msg),
    }
}

// Mode A: chains of conversions through every sequence of scales
struct Chain {
    inits: Vec<(u8, i128)>,
    depth: usize,
}
impl SeqSpec for Chain {
    /// (scale index, implementation count, model count)
    type S = (u8, i128, i128);
    fn inits(&self) -> Vec<Self::S> {
        self.inits.iter().map(|(s, c)| (*s, *c, *c)).collect()
    }
    fn n_actions(&self) -> usize {
        6
    }
    fn action_name(&self, a: usize) -> String {
        format!("to_time_scale({})", scale_name(UNIFORM[a]))
    }
    fn state_name(&self, s: &Self::S) -> String {
        format!("{} {}", scale_name(UNIFORM[s.0 as usize]), s.1)
    }
    fn max_depth(&self) -> usize {
        self.depth
    }
    fn step(&self, s: &Self::S, a: usize, path: &[u16], out: &mut Local) -> Option<Self::S> {
        let src = UNIFORM[s.0 as usize];
        let dst = UNIFORM[a];
        let want = convert_uniform(s.2, src, dst);
        let r = guard(|| Epoch::from_duration(mk(s.1), src).to_time_scale(dst));
        let args = vec![scale_name(src).to_string(), scale_name(dst).to_string(), enc(s.1)];
        match r {
            Ok(e) if e.time_scale == dst && alpha(e.duration) == want => {
                out.ok(1, src != dst, (s.0 as u64) * 6 + a as u64);
                if out.want_sample(src != dst) {
                    out.sample("c05.chain", args, format!("path {path:?} -> {} {}", scale_name(dst), want), src != dst);
                }
                Some((a as u8, want, want))
            }
            Ok(e) => {
                out.viol("c05.conv", format!("offset-wrong,{}->{},diff={}", scale_name(src), scale_name(dst), diffclass(alpha(e.duration), want)), args, describe(want), format!("{} (chain {path:?})", describe(alpha(e.duration))));
                None
            }
            Err(p) => {
                out.viol("c05.conv", format!("panic:{}", p.class()), args, "no panic".into(), p.msg);
                None
            }
        }
    }
}

pub fn run(rep: &mut Report) {
    let deep = !rep.quick();
    let q = false;
    rep.rule = "epoch lattice EL(src) (duration lattice within +-10 500 years, windows round every scale's zero, J2000, the year 0001/9999 bounds and every leap-second entry) x all 36 ordered pairs of the six uniform scales: to_time_scale, to_duration_in_time_scale, the named accessor, the named constructor and the round trip (for TAI also to_tai_parts / from_tai_parts / to_duration_since_j1900); the float constructors from_<scale>_seconds / _days on a 76-value float lattice (C18's conversion rule); commutation with + d for 16 boundary durations; all public constants against civil-date-derived values; float views; stateright BFS over every sequence of conversions up to depth 3 (quick) / 4 (thorough). Oracle: one i128 subtraction of derived zero points. Non-trivial = src != dst and a count within one second of a century boundary or of zero on either side.".into();
    rep.assumptions = vec!["zero points derived from the civil dates and offsets in the statement (1980-01-06 +19 s, 1999-08-22 +19 s, 2006-01-01 +33 s, TT = TAI + 32.184 s)".into()];
    let w = if deep { 262_144 } else { 16_384 };
    let lw = if q { None } else { Some((-3i64, 40i64)) };
    let els: Vec<Vec<i128>> = UNIFORM.iter().map(|s| lattice::el(*s, w, lw)).collect();
    rep.bound("EL_sizes", els.iter().map(|e| e.len() as u64).collect::<Vec<_>>());
    // identity conversions over the whole representable range (every accessor of the epoch's own scale included)
    let mut farc: Vec<i128> = vec![DMIN, DMIN + 1, DMAX - 1, DMAX];
    let year = 365 * 86_400 * NS_S;
    for d in [NS_S, 30 * year, 79 * year, 99 * year, 105 * year, 110 * year, NPC + 189_302_433 * NS_S, 768 * NPC + 5, 20_000 * NPC + 7] {
        farc.push(DMAX - d);
        farc.push(DMIN + d);
    }
    let nfar = farc.len() as u64;
    sweep(rep, "c05.conv[identity,far]", 6 * nfar, |i, out| j_conv(UNIFORM[(i / nfar) as usize], UNIFORM[(i / nfar) as usize], farc[(i % nfar) as usize], out));
    for (si, src) in UNIFORM.iter().enumerate() {
        let el = &els[si];
        let n = el.len() as u64;
        sweep(rep, &format!("c05.conv[{}->*]", scale_name(*src)), n * 6, |i, out| j_conv(*src, UNIFORM[(i % 6) as usize], el[(i / 6) as usize], out));
    }
    let ds: Vec<i128> = vec![1, -1, NS_S, -NS_S, NS_DAY, -NS_DAY, NPC - 1, NPC, NPC + 1, -NPC, -NPC - 1, 19 * NS_S, -33 * NS_S, 32_184_000_000, 7 * NS_DAY, 3 * NPC + 5];
    let sub: Vec<i128> = lattice::el(TimeScale::TAI, 2, None);
    let (n, m) = (sub.len() as u64, ds.len() as u64);
    rep.bound("commute", format!("{n} instants x {m} durations x 36 pairs"));
    sweep(rep, "c05.commute", n * m * 36, |i, out| {
        let p = i % 36;
        let j = i / 36;
        j_commute(UNIFORM[(p / 6) as usize], UNIFORM[(p % 6) as usize], sub[(j / m) as usize], ds[(j % m) as usize], out)
    });
    // interior scan (round 8): evenly spread, unremarkable counts (+-100 centuries, per binade, whole range) x all 36 pairs
    {
        let nsc: u64 = if deep { 20_000_000 } else { 1_500_000 };
        rep.bound("interior_scan_points", nsc);
        sweep(rep, "c05.scan_conv", 36 * (nsc / 8), |i, out| j_conv(UNIFORM[((i / 6) % 6) as usize], UNIFORM[(i % 6) as usize], scan_dur(i / 36, 0), out));
        sweep(rep, "c05.scan_commute", 36 * (nsc / 16), |i, out| {
            let k = i / 36;
            j_commute(UNIFORM[((i / 6) % 6) as usize], UNIFORM[(i % 6) as usize], lattice::scan_point(k, 1, -100 * NPC, 100 * NPC), if k % 2 == 0 { lattice::scan_point(k, 2, -3 * NPC, 3 * NPC) } else { lattice::scan_magnitude(k, 3, 0, 68) }, out)
        });
        sweep(rep, "c05.scan_float", 6 * (nsc / 8), |i, out| j_float(UNIFORM[(i % 6) as usize], lattice::scan_point(i / 6, 4, -100 * NPC, 100 * NPC), out));
    }
    // the float constructors of the six scales (seconds; days where there is one)
    let cf = ctor_floats();
    let ncf = cf.len() as u64;
    rep.bound("float_ctor_values", ncf);
    sweep(rep, "c05.float_ctor", 6 * 2 * ncf, |i, out| {
        if !j_scale_float_ctor("c05.float_ctor", UNIFORM[(i / (2 * ncf)) as usize], ((i / ncf) % 2) as usize, cf[(i % ncf) as usize], out) {
            out.dc(0); // TT has no from_tt_days
        }
    });
    // order independence (depth-2 operation sequences on one thread): 36 scale pairs x 6 counts
    let oc: [i128; 6] = [1, -1, NPC - 1, 3_692_217_600 * NS_S, -3_692_217_600 * NS_S, 189_302_433 * NS_S];
    crate::engine::order_pairs(rep, "c05.order", 36 * 6, |i, out| j_conv(UNIFORM[(i / 36) as usize], UNIFORM[((i / 6) % 6) as usize], oc[(i % 6) as usize], out));
    sweep(rep, "c05.consts", 26, |i, out| j_consts(i, out));
    sweep(rep, "c05.refdate", 6, |i, out| j_refdate(UNIFORM[i as usize], out));
    // float views on the full TAI lattice (sub-microsecond offsets round every anchor included)
    let fl_lat = &els[0];
    let nf = fl_lat.len() as u64;
    sweep(rep, "c05.float", nf * 6, |i, out| j_float(UNIFORM[(i % 6) as usize], fl_lat[(i / 6) as usize], out));
    let depth = if deep { 5 } else { 4 };
    let mut inits = vec![];
    for (si, _) in UNIFORM.iter().enumerate() {
        for (k, c) in sub.iter().enumerate() {
            if k % (if q { 4 } else { 1 }) == 0 {
                inits.push((si as u8, *c));
            }
        }
    }
    rep.bound("chain", format!("{} initial (scale, count) states, depth {depth}, 6 actions", inits.len()));
    bfs(rep, "c05.chain", Chain { inits, depth });
}

pub fn replay(check: &str, a: &[String], out: &mut Local) -> bool {
    match check {
        "c05.conv" | "c05.chain" => j_conv(scale_from(&a[0]), scale_from(&a[1]), p128(&a[2]), out),
        "c05.commute" => j_commute(scale_from(&a[0]), scale_from(&a[1]), p128(&a[2]), p128(&a[3]), out),
        "c05.consts" => j_consts(pu64(&a[0]), out),
        "c05.refdate" => j_refdate(scale_from(&a[0]), out),
        "c05.float" => j_float(scale_from(&a[0]), p128(&a[1]), out),
        "c05.float_ctor" => {
            j_scale_float_ctor("c05.float_ctor", scale_from(&a[0]), a[1].parse().unwrap(), pf64(&a[2]), out);
        }
        _ => return false,
    }
    true
}
