//! C03 Duration ordering and equality agree with the signed value.
use super::common::*;
use crate::engine::sweep;
use crate::lattice;
use crate::oracle::dur::*;
use crate::report::{guard, Local, Report};
use hifitime::{Duration, Unit};
use std::cmp::Ordering;

/// three-valued expectation for `a == b`
fn eq_expect(a: i128, b: i128) -> Option<bool> {
    if a == b {
        Some(true)
    } else if a == -b && a.abs() < NPC {
        // the one documented equality between different counts. It is one relation, not a pair-by-pair choice: it holds
        // for this pair exactly if it holds for the reference pair (1 ns, -1 ns) of the same library
        static REF: std::sync::OnceLock<bool> = std::sync::OnceLock::new();
        Some(*REF.get_or_init(|| mk(1) == mk(-1)))
    } else {
        Some(false)
    }
}

pub fn j_pair(a: i128, b: i128, out: &mut Local) {
    let (da, db) = (mk(a), mk(b));
    let args = || vec![enc(a), enc(b)];
    let r = guard(|| {
        (
            da == db,
            da != db,
            da < db,
            da <= db,
            da > db,
            da >= db,
            da.cmp(&db),
            da.partial_cmp(&db),
            da.min(db).to_parts(),
            da.max(db).to_parts(),
        )
    });
    let (eq, ne, lt, le, gt, ge, cmp, pcmp, mn, mx) = match r {
        Ok(x) => x,
        Err(p) => {
            out.viol("c03.pair", format!("panic:{}", p.class()), args(), "no panic".into(), format!("{} {}", p.loc, p.msg));
            return;
        }
    };
    let ca = a.div_euclid(NPC);
    let cb = b.div_euclid(NPC);
    let nt = (ca - cb).abs() == 1 || (a < 0) != (b < 0) || a + b == NPC || a == -b;
    let want = a.cmp(&b);
    let pos = format!("a:{},b:{}", cclass(a), cclass(b));
    // order: must equal the order of the counts
    if cmp != want || pcmp != Some(want) {
        out.viol("c03.pair", format!("cmp-wrong,{pos}"), args(), format!("{want:?}"), format!("cmp={cmp:?} partial_cmp={pcmp:?}"));
        return;
    }
    if lt != (a < b) || gt != (a > b) {
        out.viol("c03.pair", format!("lt/gt-wrong,{pos}"), args(), format!("<:{} >:{}", a < b, a > b), format!("<:{lt} >:{gt}"));
        return;
    }
    // equality
    let exp = eq_expect(a, b);
    if let Some(e) = exp {
        if eq != e {
            let rel = if a + b == NPC || a + b == -NPC { "a+b=1century" } else if a.abs() == b.abs() { "a=-b" } else { "other" };
            out.viol("c03.pair", format!("eq-wrong,want={e},{rel},{pos}"), args(), format!("(a == b) == {e}"), format!("{eq}"));
            return;
        }
    }
    if ne == eq {
        out.viol("c03.pair", format!("ne-inconsistent,{pos}"), args(), "(a != b) == !(a == b)".into(), format!("eq={eq} ne={ne}"));
        return;
    }
    // <= and >= : with PartialOrd derived, a <= b is computed from partial_cmp, so it equals the order on counts
    if le != (a <= b) || ge != (a >= b) {
        out.viol("c03.pair", format!("le/ge-wrong,{pos}"), args(), format!("<=:{} >=:{}", a <= b, a >= b), format!("<=:{le} >=:{ge}"));
        return;
    }
    // min / max return an operand with the extremal count
    let amn = mn.0 as i128 * NPC + mn.1 as i128;
    let amx = mx.0 as i128 * NPC + mx.1 as i128;
    if amn != a.min(b) || amx != a.max(b) {
        out.viol("c03.pair", format!("minmax-wrong,{pos}"), args(), format!("min={} max={}", a.min(b), a.max(b)), format!("min={amn} max={amx}"));
        return;
    }
    out.ok(10, nt, (want as i8 + 1) as u64 | (eq as u64) << 2 | (exp.is_none() as u64) << 3 | ((a < 0) as u64) << 4 | ((b < 0) as u64) << 5);
    if exp.is_none() {
        out.dontcare += 1;
    }
    if out.want_sample(nt) {
        out.sample("c03.pair", args(), format!("{} vs {}: cmp={want:?} eq={eq}", describe(a), describe(b)), nt);
    }
}

pub fn j_triple(a: i128, b: i128, c: i128, out: &mut Local) {
    let (da, db, dc) = (mk(a), mk(b), mk(c));
    let r = guard(|| (da < db, db < dc, da < dc, da == db, db == dc, da == dc, da <= db, db <= dc, da <= dc));
    let args = vec![enc(a), enc(b), enc(c)];
    match r {
        Ok((ab, bc, ac, eab, ebc, eac, lab, lbc, lac)) => {
            if ab && bc && !ac {
                out.viol("c03.triple", "lt-not-transitive".into(), args, "a<b && b<c => a<c".into(), "a<c is false".into());
            } else if lab && lbc && !lac {
                out.viol("c03.triple", "le-not-transitive".into(), args, "a<=b && b<=c => a<=c".into(), "a<=c is false".into());
            } else if eab && ebc && !eac && a.abs() == c.abs() {
                // equality is transitive on magnitudes (the documented relation identifies x and -x)
                out.viol("c03.triple", "eq-not-transitive".into(), args, "a==b && b==c => a==c".into(), "a==c is false".into());
            } else if eab && ebc && a.abs() != c.abs() {
                out.viol("c03.triple", "eq-chain-joins-different-magnitudes".into(), args, "== never relates different magnitudes".into(), format!("{a} == {b} == {c}"));
            } else {
                let nt = (ab && bc) || (eab && ebc);
                out.ok(9, nt, ab as u64 | (bc as u64) << 1 | (eab as u64) << 2 | (ebc as u64) << 3);
                if out.want_sample(nt) {
                    out.sample("c03.triple", args, format!("a<b:{ab} b<c:{bc} a<c:{ac}"), nt);
                }
            }
        }
        Err(p) => out.viol("c03.triple", format!("panic:{}", p.class()), args, "no panic".into(), format!("{} {}", p.loc, p.msg)),
    }
}

pub fn j_unit(a: i128, u: Unit, out: &mut Local) {
    let da = mk(a);
    let b = unit_ns(u);
    let r = guard(|| (da == u, da < u, da > u, da <= u, da >= u, da.partial_cmp(&u)));
    let args = vec![enc(a), unit_name(u).to_string()];
    match r {
        Ok((eq, lt, gt, le, ge, pc)) => {
            let want = a.cmp(&b);
            let exp = eq_expect(a, b);
            // PartialOrd<Unit> is hand written: Equal is returned when neither < nor > holds
            let ok_order = lt == (a < b) && gt == (a > b) && pc == Some(want) && le == (a <= b) && ge == (a >= b);
            let ok_eq = exp.map(|e| e == eq).unwrap_or(true);
            if !ok_order {
                out.viol("c03.unit", format!("order-wrong,a:{}", cclass(a)), args, format!("{want:?}"), format!("lt={lt} gt={gt} le={le} ge={ge} partial_cmp={pc:?}"));
            } else if !ok_eq {
                out.viol("c03.unit", format!("eq-wrong,a:{}", cclass(a)), args, format!("{exp:?}"), format!("{eq}"));
            } else {
                let nt = (a - b).abs() <= 3 || a < 0;
                out.ok(6, nt, (want as i8 + 1) as u64 | (eq as u64) << 2);
                if out.want_sample(nt) {
                    out.sample("c03.unit", args, format!("{} vs 1 {}: {want:?}", describe(a), unit_name(u)), nt);
                }
            }
        }
        Err(p) => out.viol("c03.unit", format!("panic:{}", p.class()), args, "no panic".into(), format!("{} {}", p.loc, p.msg)),
    }
}

/// a + b > a exactly when b is positive (away from saturation); uses the real `+`
pub fn j_addmono(a: i128, b: i128, out: &mut Local) {
    let t = a + b;
    if !(DMIN..=DMAX).contains(&t) || t == DMIN || t == DMAX {
        out.dc(0);
        return;
    }
    let (da, db) = (mk(a), mk(b));
    let r = guard(|| {
        let s = da + db;
        (s.to_parts(), s > da, s < da, s == da)
    });
    let args = vec![enc(a), enc(b)];
    match r {
        Ok((sp, gt, lt, eq)) => {
            if sp.0 as i128 * NPC + sp.1 as i128 != t {
                // the sum itself is wrong: owned by C01, not reported twice
                out.dc(1);
                return;
            }
            if gt != (b > 0) || lt != (b < 0) {
                out.viol("c03.addmono", format!("wrong,a:{},b:{}", cclass(a), cclass(b)), args, format!("(a+b > a) == {}", b > 0), format!("gt={gt} lt={lt} eq={eq}"));
            } else {
                let nt = a.div_euclid(NPC) != t.div_euclid(NPC) || (a < 0) != (t < 0);
                out.ok(2, nt, (gt as u64) | (lt as u64) << 1 | (nt as u64) << 2);
                if out.want_sample(nt) {
                    out.sample("c03.addmono", args, format!("a+b>a: {gt}"), nt);
                }
            }
        }
        Err(p) => out.viol("c03.addmono", format!("panic:{}", p.class()), args, "no panic".into(), format!("{} {}", p.loc, p.msg)),
    }
}

const DERIVE: [&str; 36] = ["neg", "abs", "neg_neg", "add_zero", "sub_self_plus", "mul_1", "mul_neg1", "div_1", "max_minus", "saturated_max_minus", "min_plus", "saturated_min_plus", "minus_century", "plus_century", "minus_max", "minus_min", "max_minus_then_plus", "half_twice", "add_assign_ns", "add_assign_us", "add_assign_ms", "add_assign_s", "add_assign_min", "add_assign_h", "add_assign_day", "add_assign_week", "add_assign_century", "sub_assign_ns", "sub_assign_us", "sub_assign_ms", "sub_assign_s", "sub_assign_min", "sub_assign_h", "sub_assign_day", "sub_assign_week", "sub_assign_century"];
/// operands produced by real operations (not by the constructor) must compare like their count: a value whose
/// representation escaped the canonical form would compare wrongly against the same count built directly
pub fn j_derived(op: usize, a: i128, out: &mut Local) {
    let da = mk(a);
    let args = vec![op.to_string(), enc(a)];
    let r = guard(|| {
        let d = match op {
            0 => -da,
            1 => da.abs(),
            2 => -(-da),
            3 => da + Duration::ZERO,
            4 => (da - da) + da,
            5 => da * 1,
            6 => da * -1,
            7 => da / 1,
            // operands that only another operation can produce: the saturated bounds (MAX carries a full century of
            // nanoseconds) as minuend / augend, and whole centuries taken off or put on
            8 => Duration::MAX - da,
            9 => (Duration::MAX + Duration::from_parts(0, NS_DAY as u64)) - da,
            10 => Duration::MIN + da,
            11 => (Duration::MIN - Duration::from_parts(0, NS_DAY as u64)) + da,
            12 => da - Duration::from_parts(1, 0),
            13 => da + Duration::from_parts(1, 0),
            14 => da - Duration::MAX,
            15 => da - Duration::MIN,
            16 => (Duration::MAX - da) + da,
            17 => da / 2 + da / 2,
            // the compound assignment forms with a Unit operand (their own carry code): the result lands on a century when
            // the operand is one unit short of (past) it
            18..=26 => {
                let mut x = da;
                x += UNITS[op - 18];
                x
            }
            _ => {
                let mut x = da;
                x -= UNITS[op - 27];
                x
            }
        };
        let v = alpha(d);
        if !(DMIN..=DMAX).contains(&v) {
            return (v, None);
        }
        let same = mk(v);
        let below = mk((v - 1).max(DMIN));
        let above = mk((v + 1).min(DMAX));
        (v, Some((d.cmp(&same), d == same, same == d, d.cmp(&below), d.cmp(&above), d < same, d > same, d.max(same).to_parts() == same.to_parts() || d.max(same).to_parts() == d.to_parts())))
    });
    match r {
        Ok((v, Some((c, e1, e2, cb, ca, lt, gt, _)))) => {
            use std::cmp::Ordering::*;
            let want_b = if v == DMIN { Equal } else { Greater };
            let want_a = if v == DMAX { Equal } else { Less };
            if c != Equal || !e1 || !e2 || lt || gt || cb != want_b || ca != want_a {
                out.viol("c03.derived", format!("result-of-{}-miscompares-with-same-count", DERIVE[op]), args, format!("cmp Equal, ==, > count-1, < count+1 for count {v}"), format!("cmp={c:?} eq={e1}/{e2} lt={lt} gt={gt} vs-below={cb:?} vs-above={ca:?}"));
            } else {
                let nt = a < 0 || a.rem_euclid(NPC) == 0;
                out.ok(8, nt, op as u64 | ((a.rem_euclid(NPC) == 0) as u64) << 4 | ((a < 0) as u64) << 5);
                if out.want_sample(nt) {
                    out.sample("c03.derived", args, format!("{}({}) compares as count {v}", DERIVE[op], describe(a)), nt);
                }
            }
        }
        Ok((_, None)) => out.dc(1), // the operation itself produced an out-of-range count: owned by C01
        Err(p) => out.viol("c03.derived", format!("panic:{}", p.class()), args, "no panic".into(), format!("{} {}", p.loc, p.msg)),
    }
}

pub fn j_sort(variant: u64, sub: &[i128], out: &mut Local) {
    let n = sub.len();
    let mut v: Vec<Duration> = match variant {
        0 => sub.iter().rev().map(|x| mk(*x)).collect(),
        1 => (0..n).map(|i| mk(sub[(i + n / 3) % n])).collect(),
        2 => (0..n).map(|i| mk(sub[(i * 37) % n])).collect(), // 37 coprime with n is ensured by the caller
        _ => (0..n).map(|i| mk(sub[if i % 2 == 0 { i / 2 } else { n - 1 - i / 2 }])).collect(),
    };
    let r = guard(|| {
        v.sort();
        v.iter().map(|d| alpha(*d)).collect::<Vec<_>>()
    });
    let args = vec![variant.to_string()];
    match r {
        Ok(got) => {
            if got == sub {
                out.ok(n as u64, true, variant);
                if out.want_sample(true) {
                    out.sample("c03.sort", args, format!("{n} durations sorted into count order"), true);
                }
            } else {
                let i = (0..n).find(|i| got[*i] != sub[*i]).unwrap_or(0);
                out.viol("c03.sort", "order-wrong".into(), args, format!("position {i}: {}", sub[i]), format!("position {i}: {}", got[i]));
            }
        }
        Err(p) => out.viol("c03.sort", format!("panic:{}", p.class()), args, "no panic".into(), format!("{} {}", p.loc, p.msg)),
    }
}

fn sublattice() -> Vec<i128> {
    let mut v = vec![];
    for c in [-32768i128, -2, -1, 0, 1, 2, 32767] {
        for o in [0i128, 1, 2, NPC / 2, NPC - 2, NPC - 1] {
            v.push(c * NPC + o);
        }
    }
    for x in [-NPC / 2, -(NPC / 2) - 1, -NS_S, NS_S, -5, 5, DMAX, DMAX - 1, -3 * NPC + 7, 3 * NPC - 7] {
        v.push(x);
    }
    v.retain(|x| (DMIN..=DMAX).contains(x));
    v.sort();
    v.dedup();
    v
}

pub fn run(rep: &mut Report) {
    let deep = !rep.quick();
    let q = false;
    let dl = lattice::dl(if deep { 768 } else { 64 }, !q);
    let n = dl.len() as u64;
    rep.bound("DL_size", n);
    rep.rule = "all ordered pairs of the duration lattice under == != < <= > >= cmp partial_cmp min max; all triples of a zero-crossing / adjacent-century sub-lattice for transitivity; sort of the sub-lattice from 4 permutations; DL x 9 units; a+b>a on all pairs away from saturation; operands *produced by real operations* (neg, abs, double neg, +0, (a-a)+a, *1, *-1, /1) compared with the same count built directly and with its two neighbours. Oracle: the same relation on the i128 counts; `x == -x` within one century holds for every such pair or for none (judged against the pair 1 ns, -1 ns). Non-trivial = century fields differ by one, operands straddle zero, a+b = one century, or exact negations.".into();
    rep.assumptions = vec!["Duration::from_parts/to_parts exact (C02)".into()];
    sweep(rep, "c03.pair", n * n, |i, out| j_pair(dl[(i / n) as usize], dl[(i % n) as usize], out));
    let sub = sublattice();
    let m = sub.len() as u64;
    rep.bound("triple_sublattice", m);
    sweep(rep, "c03.triple", m * m * m, |i, out| j_triple(sub[(i / (m * m)) as usize], sub[((i / m) % m) as usize], sub[(i % m) as usize], out));
    assert!(m % 37 != 0);
    sweep(rep, "c03.sort", 4, |i, out| j_sort(i, &sub, out));
    // order independence: comparisons with units and of mirrored pairs, in every order
    {
        let oa: [i128; 6] = [3 * NS_DAY, 3_600 * NS_S, 60 * NS_S, -3_600 * NS_S, NPC / 2, -NPC / 2];
        let ou = [Unit::Day, Unit::Week, Unit::Hour, Unit::Minute];
        crate::engine::order_pairs(rep, "c03.order", 24 + 36, |i, out| if i < 24 { j_unit(oa[(i / 4) as usize], ou[(i % 4) as usize], out) } else { j_pair(oa[((i - 24) / 6) as usize], oa[((i - 24) % 6) as usize], out) });
    }
    // interior scan (round 8): pairs and triples of evenly spread, unremarkable counts
    {
        let nsc: u64 = if deep { 30_000_000 } else { 2_000_000 };
        rep.bound("interior_scan_points", nsc);
        sweep(rep, "c03.scan_pair", nsc, |i, out| {
            let a = scan_dur(i, 0);
            // one pair in four is a near miss of the first operand (same count, +-1 ns, exact negation)
            let b = match i % 8 { 0 => a, 1 => (a + 1).min(DMAX), 2 => (a - 1).max(DMIN), 3 => -a, _ => scan_dur(i + i / 3, 1) };
            j_pair(a, b, out)
        });
        sweep(rep, "c03.scan_triple", nsc / 4, |i, out| j_triple(scan_dur(i, 2), scan_dur(i + i / 3, 3), scan_dur(i + i / 9, 4), out));
        sweep(rep, "c03.scan_addmono", nsc, |i, out| j_addmono(scan_dur(i, 5), scan_dur(i + i / 3, 0), out));
        sweep(rep, "c03.scan_unit", 9 * (nsc / 8), |i, out| j_unit(scan_dur(i / 9, 1), UNITS[(i % 9) as usize], out));
        sweep(rep, "c03.scan_derived", 36 * (nsc / 32), |i, out| j_derived((i % 36) as usize, scan_dur(i / 36, 2), out));
    }
    sweep(rep, "c03.unit", n * 9, |i, out| j_unit(dl[(i / 9) as usize], UNITS[(i % 9) as usize], out));
    sweep(rep, "c03.addmono", n * n, |i, out| j_addmono(dl[(i / n) as usize], dl[(i % n) as usize], out));
    sweep(rep, "c03.derived", n * 36, |i, out| j_derived((i % 36) as usize, dl[(i / 36) as usize], out));
    // operands one or two units short of / past every century anchor (and of zero), through every derived operation
    {
        let mut near: Vec<i128> = vec![];
        for c in lattice::CENTURY_ANCHORS {
            for u in lattice::UNIT_NS {
                for k in [-2i128, -1, 1, 2] {
                    let v = c * NPC + k * u;
                    if (DMIN..=DMAX).contains(&v) {
                        near.push(v);
                    }
                }
            }
        }
        near.sort();
        near.dedup();
        sweep(rep, "c03.derived[unit-from-century]", near.len() as u64 * 36, |i, out| j_derived((i % 36) as usize, near[(i / 36) as usize], out));
    }
}

pub fn replay(check: &str, a: &[String], out: &mut Local) -> bool {
    match check {
        "c03.pair" => j_pair(p128(&a[0]), p128(&a[1]), out),
        "c03.triple" => j_triple(p128(&a[0]), p128(&a[1]), p128(&a[2]), out),
        "c03.unit" => j_unit(p128(&a[0]), unit_from(&a[1]), out),
        "c03.addmono" => j_addmono(p128(&a[0]), p128(&a[1]), out),
        "c03.derived" => j_derived(a[0].parse().unwrap(), p128(&a[1]), out),
        "c03.sort" => j_sort(pu64(&a[0]), &sublattice(), out),
        _ => return false,
    }
    true
}
