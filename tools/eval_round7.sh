#!/bin/bash
# usage: tools/eval_round7.sh <S|N> <Cxx> [extra check ids, comma separated] [--tier thorough]
# developer tool: evaluates the (up to) three round-7 changes of one property in a scratch copy (tools/scratch_eval.py).
# S = seeded property-breaking changes (demo must fail with the change), N = property-preserving changes (checks must stay quiet)
k=$1; c=$2; extra=${3:+,$3}; shift; shift; shift
dir=/tmp/wt7-out/$k/$c
demo=seed_demo.rs; tag=r7s; [ $k = N ] && { demo=keep_demo.rs; tag=r7n; }; [ $k = S8 ] && { dir=/tmp/wt8-out/$c; tag=r8s; }
args=""
for n in 1 2 3; do
  if [ -f $dir/$n/patch.diff ]; then
    d=""; [ -f $dir/$n/$demo ] && d=":$dir/$n/$demo"
    args="$args $c-${tag}$n=$dir/$n/patch.diff:$c$extra$d"
  fi
done
[ -z "$args" ] && { echo "no patches for $k $c"; exit 0; }
python3 /verif/tools/scratch_eval.py "$@" --out /verif/.work/r7${k}_$c.json $args 2>&1 | grep -v "^WARNING" | cut -c1-320
