#!/usr/bin/env python3
"""Writes /verif/MANIFEST.json from the table below (kept next to the code so the two stay in sync)."""
import json, subprocess

CLAIMED = {
 "C02": dict(
   technique="bounded explicit-state model checking: exhaustive enumeration of constructor/accessor lattices of the real API against an i128 reference model and a canonical-form predicate",
   text="Every constructor (from_parts over century anchors x the whole u64 axis of century multiples, from_total_nanoseconds over the duration lattice plus i128 extremes, from_truncated_nanoseconds, n*Unit / Unit*n / n.unit() over the i64 factor lattice x 9 units, compose over the boundary-field product (3 x 12^7 in the thorough tier), std conversions) is executed on the real code and the (centuries, nanoseconds) read back is compared with the clamped i128 count and the canonical-form predicate; the accessors total_nanoseconds / try_truncated_nanoseconds / truncated_nanoseconds are compared with the count on the whole lattice.",
   note="Trusted: to_parts() returns the stored fields. Known finding D1 (total_nanoseconds below -1 century, pinned by tests/duration.rs:378) matched by exact defect model.",
   ref="DESIGN.md §4 C02"),
 "C03": dict(
   technique="bounded explicit-state model checking: exhaustive enumeration of all ordered pairs (and all triples of a sub-lattice) of the duration lattice through the real comparison operators, judged against the order/equality of the i128 counts",
   text="All ordered pairs of the duration lattice go through == != < <= > >= cmp partial_cmp min max and a+b>a; all triples of a 50-value zero-crossing/adjacent-century sub-lattice through the transitivity checks; sort from four permutations; lattice x 9 units for the Unit comparisons. x == -x within one century is a counted don't-care (documented).",
   note="Trusted: from_parts/to_parts (C02). Equality between exact negations below one century is not judged (the statement allows it).",
   ref="DESIGN.md §4 C03"),
 "C14": dict(
   technique="bounded explicit-state model checking: exhaustive enumeration of duration lattice x step lattice (both signs) and epoch lattice x steps x 9 scales through the real floor/ceil/round/approx, plus stateright BFS over chains of these operations, against a div_euclid reference model",
   text="Every (duration, step) pair of the lattices (steps 1 ns .. centuries .. MAX of both signs, and 0) and every (scale, count within +-100 centuries, step) triple is run through the real floor/ceil/round (and approx) and compared with the div_euclid model on the i128 count, including the side conditions floor <= d < ceil; a stateright BFS chains the operations from non-initial states and checks idempotence.",
   note="Trusted: from_parts/to_parts (C02). Where the true floor is below the range (ceil/round) the statement is ambiguous: counted don't-care; when the true ceil is above the range both readings of round are accepted. Known finding D1 via exact defect model.",
   ref="DESIGN.md §4 C14"),
 "C01": dict(
   technique="bounded explicit-state model checking of the real operators: exhaustive enumeration of lattice products (all ordered pairs of the duration lattice, lattice x i64 factor lattice, lattice x units) plus stateright BFS over operation sequences, each step co-simulated with an i128 reference model",
   text="Every ordered pair of the duration lattice (century anchors incl. both bounds, dense windows round 0, +-1..3 centuries, MIN, MAX and the i64 limits) is run through + - += -=, every lattice x factor pair through * / (both operand orders), every lattice x unit pair through the Unit forms, and a stateright BFS explores all operation sequences up to depth 3 (quick) / 4 (thorough) from non-initial states; each real result is compared with clamp(i128 op). Exhaustive over the stated finite space, not a proof for all 2^160 pairs.",
   note="Trusted: Duration::from_parts(c, n<century) / to_parts() (cross-checked by C02), the i128 model (a dozen lines), rustc overflow checks turning wraps into observable panics. Known finding D1 (total_nanoseconds below -1 century, pinned by the repo's own test) is matched by an exact defect model.",
   ref="DESIGN.md §4 C01"),
}

ALL = [f"C{i:02d}" for i in range(1, 21)]

def main():
    checks = []
    for pid in ALL:
        if pid not in CLAIMED: continue
        c = CLAIMED[pid]
        checks.append({
            "property_id": pid,
            "quick_cmd": f"./vf check {pid} quick",
            "thorough_cmd": f"./vf check {pid} thorough",
            "evidence_file": f"/verif/evidence/{pid}.json",
            "replay_cmd_template": "./vf replay {path}",
            "engine": "hmc",
            "level_claimed": {"category": "model_checking", "text": c["text"], "design_ref": c["ref"]},
            "level_note": c["note"],
            "technique": c["technique"],
        })
    na = [{"property_id": p, "reason": "check not built yet in this round (work in progress; planned as bounded explicit-state exploration like the others, see DESIGN.md §4)"} for p in ALL if p not in CLAIMED]
    m = {
        "version": 1,
        "setup_cmd": "./vf setup",
        "hooks": {
            "guard": "hifitime_verif",
            "enable": "none needed: every observation point is public API; the harness depends on /repo by path and rebuilds it on every check (guard name reserved, no source commit uses it)",
            "baseline_off_cmd": "cd /repo && cargo test --workspace --no-fail-fast --offline",
            "source_commits": [],
            "add_only": True,
        },
        "engines": [{
            "name": "hmc", "path": "/verif/harness",
            "serves_properties": [c["property_id"] for c in checks],
            "kind_free_text": "Rust binary linking the real hifitime crate from /repo: (A) stateright 0.31 breadth-first search over operation sequences with implementation and reference model stepped together, (B) exhaustive parallel enumeration of finite lattice products; every trace judged by an executable reference model",
        }],
        "checks": checks,
        "notes": "exit 0 = held on everything explored (KNOWN-FINDING lines are informational), exit 1 = VIOLATION lines, exit 2 = machinery failure. Known findings: /verif/KNOWN_FINDINGS.txt, witnesses in /verif/findings/. fix: commits in /repo are listed as 'fixed:' lines there.",
        "not_applicable": na,
    }
    json.dump(m, open("/verif/MANIFEST.json", "w"), indent=1)
    print("MANIFEST.json written:", len(checks), "checks,", len(na), "not claimed")

main()
