#!/usr/bin/env python3
"""Writes /verif/MANIFEST.json from the table below (kept next to the code so the two stay in sync)."""
import json, subprocess

CLAIMED = {
 "C02": dict(
   technique="bounded explicit-state model checking: exhaustive enumeration of constructor/accessor lattices of the real API against an i128 reference model and a canonical-form predicate",
   text="Every constructor (from_parts over century anchors x the whole u64 axis of century multiples, from_total_nanoseconds over the duration lattice plus i128 extremes, from_truncated_nanoseconds, n*Unit / Unit*n / n.unit() over the i64 factor lattice x 9 units, compose over the full boundary-field product 3 x 12^7 (both tiers), std conversions) is executed on the real code and the (centuries, nanoseconds) read back is compared with the clamped i128 count and the canonical-form predicate; the accessors total_nanoseconds / try_truncated_nanoseconds / truncated_nanoseconds are compared with the count on the whole lattice.",
   note="Trusted: to_parts() returns the stored fields. Known finding D1 (total_nanoseconds below -1 century, pinned by tests/duration.rs:378) matched by exact defect model.",
   ref="DESIGN.md §4 C02"),
 "C03": dict(
   technique="bounded explicit-state model checking: exhaustive enumeration of all ordered pairs (and all triples of a sub-lattice) of the duration lattice through the real comparison operators, judged against the order/equality of the i128 counts",
   text="All ordered pairs of the duration lattice go through == != < <= > >= cmp partial_cmp min max and a+b>a; all triples of a 50-value zero-crossing/adjacent-century sub-lattice through the transitivity checks; sort from four permutations; lattice x 9 units for the Unit comparisons; operands produced by real operations (neg, abs, double neg, +0, (a-a)+a, *1, *-1, /1) compared with the same count built directly and with its neighbours. x == -x within one century is a counted don't-care (documented).",
   note="Trusted: from_parts/to_parts (C02). Equality between exact negations below one century is not judged (the statement allows it).",
   ref="DESIGN.md §4 C03"),
 "C04": dict(
   technique="bounded explicit-state model checking: exhaustive enumeration of epoch lattice x duration lattice x 9 scales through the real operators, all 81 scale pairs for Epoch - Epoch, plus stateright BFS over +-d sequences per scale, against i128 count arithmetic",
   text="Every (scale, epoch count, duration) triple of the lattices is run through + - += -=, the Unit forms and exact-integer float seconds, and through the identities (e+d)-e=d, (e+d)-d=e, e+(f-e)=f, judged on to_parts(); Epoch - Epoch is checked for all 81 scale pairs both relationally (left scale after re-expressing the right operand) and against the exact model for the uniform scales and UTC; a stateright BFS chains +-d from each scale's zero, a leap second and -1 century.",
   note="Traces that hit a duration bound are don't-cares (the statement excludes them). Cross-scale differences with an ET/TDB operand are judged relationally only.",
   ref="DESIGN.md §4 C04"),
 "C07": dict(
   technique="bounded explicit-state model checking: exhaustive enumeration of a phase lattice over +-10 000 years (7.5 M / 29 M instants x 3 sub-second offsets) x source scales x both directions through the real conversions, judged in integer nanoseconds against the two closed forms evaluated with constants parsed from the NAIF kernel",
   text="Every lattice instant J2000 + k x (1 day + 97 s) (quick) / (6 h + 97 s) (thorough), with sub-offsets {0, 1 ns, 1/2 s}, is converted from TAI (all points) and from TT/GPST/QZSST/GST/BDT (every 8th) to ET and TDB and back; the same counts are read as ET/TDB and converted to the six uniform scales and back. Each result is compared with 32.184 s + K sin E (NAIF) resp. the ESA form at the output's own t within 30 ns, each round trip within 20 ns, and points more than 100 ns apart must keep their order. The maximum observed errors are reported in the evidence (about 1 ns / 12 ns).",
   note="A statement about a transcendental function at 6e20 instants: the lattice step is coprime with the anomalistic year so phases do not repeat; between lattice points the closed form moves by < 1e-9 of the spacing. Platform libm sin() on both sides.",
   ref="DESIGN.md §4 C07"),
 "C10": dict(
   technique="bounded explicit-state model checking: exhaustive enumeration of the calendar lattice (years 0001-9999) x 9 scales through the real format -> parse chains, of the complete grammar product (separator x fraction digits x zone incl. all 2 879 offsets x 14 suffixes) and of the numeric forms over a float lattice, judged by a reference renderer and civil arithmetic",
   text="Each enumerated epoch is formatted by Display, to_gregorian_str, the ISO 8601 formatter, serde_json and to_rfc3339 and parsed back by from_str / from_gregorian_str / serde: same scale and same parts required. The grammar product (64 instants x {T, space} x 0..9 fraction digits in two digit patterns x {none, Z, offsets} x {none, 9 scale names, 4 RINEX aliases}; 7.2 M texts quick, 103 M thorough) must parse to exactly the instant denoted (offset = local - hh:mm, fewer digits = trailing zeros, suffix selects the scale). JD/MJD/SEC forms over the float lattice x 9 scales must denote the instant within 8 ulp of the value (at the larger of |value| and its distance from the scale's anchor) + 2 ns.",
   note="'Z' followed by a non-UTC suffix and explicit UnsupportedTimeSystem refusals are counted don't-cares; JD in ET/TDB excluded (statement).",
   ref="DESIGN.md §4 C10"),
 "C19": dict(
   technique="bounded explicit-state model checking: exhaustive enumeration of all formats of 1-2 tokens (17 tokens x 57 separator strings), all 3-token formats (x 9 separator pairs), 16-token rotations and the nine constants x a 55-epoch sub-lattice through the real Format::from_str + Formatter, all 2 879 %z offsets, and parse-back of up to 52 000 full date-time formats, judged by per-token reference pieces",
   text="For every enumerated (format, epoch) the real output must equal the concatenation of per-token reference pieces (civil fields of the epoch in its own scale, English names, weekday of the printed date) and exactly the format's separators. All nine constants must equal Format::from_str(the string they stand for); all nine are rendered and compared, incl. optional tokens; ISO8601 formatter == Display for non-zero nanoseconds; %z is checked for every offset -23:59..+23:59 incl. parse-back of the local time; all 5 040 orders of the seven numeric tokens and all 46 656 separator assignments; Formatter::to_time_scale / set_timezone over 7 target scales plus name/ordinal formats are rendered for UTC epochs and parsed back through three entry points.",
   note="%y is pinned for the years 2000-2099 (two digits; documentation, parser and C89 agree there) and a don't-care elsewhere; %J is compared with the accessor, %w is the C89 number of the weekday of the printed date. ISO8601 == Display is not judged for whole seconds: the statement's nine-digit %f rule and its display rule contradict each other there.",
   ref="DESIGN.md §4 C19"),
 "C11": dict(
   technique="bounded explicit-state model checking: exhaustive enumeration of the unit-multiple duration lattice through the real decompose/Display/FromStr/serde chain, and of the parser's complete spelling, component-subset and offset tables, judged by integer decomposition and a reference renderer",
   text="~36 000 (quick) / ~250 000 (thorough) durations within 10 000 years (every k x unit +- 0..3 ns for the seven units and k = 1..512 / 1..4096 plus larger anchors, both signs) are decomposed, subdivided, displayed, parsed back, serialized to JSON and back and read through Epoch::hours()..nanoseconds(); every result is compared with the integer model / reference text and the parse-back with the original parts. All 25 unit spellings x 12 values x sign, all 127 component subsets x 3 value sets x sign and all 28 800 offset strings in five shapes are parsed and compared with the value they denote.",
   note="The sign of a positive decomposition may be 0 or +1 (suite pins 0). Forms without a space between value and unit are undocumented and not exercised.",
   ref="DESIGN.md §4 C11"),
 "C13": dict(
   technique="bounded explicit-state model checking: exhaustive enumeration of all strings up to length 4/5 over per-parser alphabets (incl. 2-, 3-, 4-byte characters and non-ASCII digits) and of grammar-derived corpora closed under all single- and double-point mutations, through the ten real parser entry points under overflow checks with panic capture and a watchdog",
   text="5.8 M (quick) / 88 M (thorough) inputs: every string of up to L symbols per parser, every single mutant (delete, truncate, substitute, insert over the alphabet) of every seed, every double mutant of seeds up to 16/40 characters, numeric extremes (huge digit runs, 1e400, inf, nan, i32/u32 limits, non-ASCII digits) spliced into every numeric field, for the two-argument entry points mutated formats x mutated inputs and structured pairs (every format of 1-2 tokens x 57 separator strings, every 3-token format, formats of 14-17 tokens, each against the real formatter's own output and five field-count variants). The call must return Ok or Err: panics are caught (overflow checks on), a watchdog bounds each call. Second clause: the full product of boundary field values rendered as well-formed text must be rejected when a field is out of range, in five text shapes and through three entry points.",
   note="'All UTF-8 strings' is approximated by the stated alphabets and mutation operators. Known finding D26 (30/31 February in leap years accepted; pinned by the suite) with a narrow signature.",
   ref="DESIGN.md §4 C13"),
 "C08": dict(
   technique="bounded explicit-state model checking: exhaustive enumeration of the calendar lattice (every day of 1600-2400 / of 0001-9999, far years to +-30000) x times of day x 9 scales and of the full 12 M-tuple rejection product through the real constructors, judged by Hinnant's days_from_civil",
   text="Every enumerated (date, time of day, scale) is built with maybe_from_gregorian (and, on every 16th, all convenience constructors) and the elapsed count compared to the nanosecond with (days_from_civil(date) - days(reference date)) x 86400 s + time of day - reference time of day; is_gregorian_valid is cross-checked. The accepted/rejected partition is checked on the full product of boundary values of all seven fields (36 years x 16 months x 35 days x 6 hours x 4 minutes x 5 seconds x 5 nanosecond values) and on second = 60 for the last day of every month 1958-2030 against the IERS list.",
   note="hour == 24, nanosecond == 10^9 and second == 60 on 1971-12-31 are counted don't-cares (statement silent). Known finding D26: 30/31 February accepted in leap years (pinned by tests/epoch.rs test_range), narrow signature.",
   ref="DESIGN.md §4 C08"),
 "C09": dict(
   technique="bounded explicit-state model checking: exhaustive enumeration of the calendar lattice x times of day x 9 scales and of the epoch lattice through the real decomposition / Display / accessors and back through the real constructor, judged by civil_from_days and a reference renderer",
   text="For every enumerated instant the count that denotes it is decomposed by the real code: Display, to_gregorian_str, to_gregorian_utc/tai, the own-scale alternate formatter, year(), month_name(), day_of_year(), duration_in_year(), year_days_of_year(); every output is compared with the reference fields/rendering and the fields are fed back to maybe_from_gregorian, which must return the identical epoch. The five alternate formatters are compared with model conversions (UTC/TAI/TT exact, ET/TDB to the second away from second boundaries).",
   note="Trusted: civil_from_days (bijection self-check over +-30 000 years at start-up), the reference renderer (Rust {:04}/{:02}/{:09} formatting).",
   ref="DESIGN.md §4 C09"),
 "C12": dict(
   technique="bounded explicit-state model checking: exhaustive enumeration of all ordered pairs of ~1000 epochs (TAI instant lattice expressed in all nine scales) through the real comparison operators, and of pair x target-scale triples for conversion invariance, judged against the TAI instants",
   text="A lattice of TAI instants (each scale's zero +- {0,1 ns,1 s,1 day,half/one century}, leap seconds on both sides incl. instants inside the inserted second) is expressed in every scale; all ordered pairs go through == != < <= > >= cmp partial_cmp min max Range::contains and the swapped forms; a sub-lattice squared x 7 target scales checks that converting either or both operands preserves the answer; mixed-scale vectors are sorted.",
   note="Pairs with an ET/TDB operand within 100 ns are don't-cares (statement). Conversion of an instant inside an inserted interval into UTC is a value don't-care (C06).",
   ref="DESIGN.md §4 C12"),
 "C15": dict(
   technique="bounded explicit-state model checking: every series of a finite (start, span, step, unit, mode, scale pair) product is built with the real constructor and its iterator state machine stepped with next() to exhaustion (and once more), every item compared with a list model",
   text="0.6 M (quick) / 1.4 M (thorough) series: starts at each scale's zero, before it, at century boundaries of the count and round three leap seconds; spans of 0..63 units and +-1 ns; steps of 1..7 units; ns/s/day (+us/min/week) units; inclusive and exclusive; end given in the start's scale or another one. Every yielded epoch must equal start + k*step exactly (computed from the start), in the start's scale, for exactly the k the bound admits, then None and None again. The thorough tier adds four series of 5-7 million items.",
   note="end - start is measured in the end's scale (left operand of Epoch - Epoch, C04). Steps are positive (statement).",
   ref="DESIGN.md §4 C15"),
 "C05": dict(
   technique="bounded explicit-state model checking: exhaustive enumeration of epoch lattice x all 36 ordered scale pairs through the real conversions, plus stateright BFS over every sequence of conversions up to depth 3/4, co-simulated with a one-subtraction reference model whose zero points are derived from civil dates",
   text="For every instant of the epoch lattice (both signs, century boundaries, every scale's zero, year 0001/9999, leap second instants) and every ordered pair of the six uniform scales the real to_time_scale / to_duration_in_time_scale / named accessor / named constructor / round trip are compared to the nanosecond with count + zero(src) - zero(dst); conversion is checked to commute with + d; all duplicated public constants are compared with the derived value; the zero date of every scale is rendered and rebuilt; a stateright BFS drives every conversion sequence (depth 4 quick / 5 thorough) from 6 x ~700 initial states and compares implementation and model state after every step.",
   note="Trusted: the zero points as stated in the property (civil date + offset), Hinnant's days_from_civil (self-checked against anchors and as a bijection over +-30 000 years at start-up).",
   ref="DESIGN.md §4 C05"),
 "C06": dict(
   technique="bounded explicit-state model checking: exhaustive enumeration of instants round every table entry (every second -45..+85 s x 4 sub-second offsets, every nanosecond within +-3 us / +-30 us, every second of the day before and after each entry) x directions x 34 provider configurations through the real conversions and accessors, plus stateright BFS over sequences mixing conversions among UTC/TAI/GPST/TT with +- steps from states next to four table entries, against a table-lookup model parsed from the two shipped data files",
   text="The built-in table (forward, reverse, indexed) and the file provider are compared entry by entry with the IERS list parsed at check time from data/leap-seconds.list and naif0012.txt (three-way agreement with a digest in the harness). UTC->TAI, TAI->UTC and the round trip are checked to the nanosecond on every lattice instant (28 IERS + 14 SOFA entries, dates before 1960/1972 and after 2017, +-10 500 years); the accessor and 34 file providers (every prefix of the list, 5 format variants) are checked absolutely on TAI-labelled epochs and relatively (file == built-in) on every scale.",
   note="TAI instants inside an inserted interval (the leap second itself, the 10 s of 1972-01-01) have no UTC count: only the two holding values do not go backwards; the value the current convention produces is known finding D37 (pinned by tests/epoch.rs:198). The accessor's answer for a TAI epoch between an entry's timestamp and its TAI instant is not judged (the statement defines the conversion, not the accessor; tests/epoch.rs:1132 pins the early switch).",
   ref="DESIGN.md §4 C06"),
 "C16": dict(
   technique="bounded explicit-state model checking: complete enumeration of the weekday algebra (7 x 256 x 9 operations), exhaustive enumeration of the calendar lattice x day-boundary times of day for the accessors and next/previous, plus stateright BFS over chains of next/previous, judged by (days since 1900-01-01) mod 7",
   text="The weekday algebra is enumerated completely. Every day of the calendar lattice at ten times of day (first/last nanoseconds, 238 ns and 1 us before midnight, noon, rolling) is given as a TAI and as a UTC epoch to weekday / weekday_utc / weekday_in_time_scale; next and previous are run for all 7 targets on every 7th day and all leap-second days, the four _at_midnight/_at_noon variants likewise; a stateright BFS chains next/previous from 24 starts (depth 3/4) checking each step lands 1..7 whole days away on the requested weekday at the same time of day.",
   note="next/previous on UTC epochs whose TAI and UTC civil dates differ are don't-cares (the statement does not say in which scale the weekday is read); _at_midnight/_at_noon before the reference epoch are don't-cares (not described by the statement).",
   ref="DESIGN.md §4 C16"),
 "C17": dict(
   technique="bounded explicit-state model checking: exhaustive enumeration of the epoch lattice x 9 scales x ~35 accessors and of the float lattice x 9 constructors through the real code, judged by exact integer/rational arithmetic with derived constants",
   text="Every lattice epoch in every scale is read through all JD/MJD/UNIX/TT/ET/TDB views: duration-valued ones must equal count + constant exactly (constants derived from civil dates; UTC via the leap table model), float ones must be within 8 ulp of the correctly rounded exact rational (of the value or of one second's worth; measured worst case is reported). Constructors from_mjd_*/from_jde_*/from_unix_* are run on every float of the lattice inside +-10 000 years and read back through the same view.",
   note="Constructor read-back tolerance is 8 ulp at the larger of |value|, one second's worth and |value - 1900 anchor| (the constructors subtract the anchor in f64; demanding more would exceed the statement's 'float precision'). JDE in ET/TDB is checked as an exact affine function of the real ET/TDB duration (the transcendental part belongs to C07).",
   ref="DESIGN.md §4 C17"),
 "C20": dict(
   technique="bounded explicit-state model checking: exhaustive enumeration of (week, ns-of-week, scale) boundary products, of the non-negative epoch lattice, of u64 counter lattices and of (year, day-of-year, fraction, scale) products through the real constructors/accessors, judged by integer division and civil arithmetic",
   text="from_time_of_week over the week and nanosecond-of-week lattices x 9 scales (incl. non-canonical and saturating inputs) and back; to_time_of_week on every non-negative lattice epoch in 9 scales must return the unique pair with ns < 604 800 s and rebuild the epoch; the four u64 counters are constructed and read back on 16 boundary values and read from every lattice epoch in 7 scales (Err required outside [0, one century)); from_day_of_year -> (year, day_of_year) for every day of 13 years (quick) / ~60 days of every year 0001-9999 (thorough) x 4 fractions x 9 scales.",
   note="Negative counts are outside to_time_of_week's quantifier (counted don't-cares).",
   ref="DESIGN.md §4 C20"),
 "C18": dict(
   technique="bounded explicit-state model checking: exhaustive enumeration of a float lattice (every binade with neighbours, thresholds +-1 ulp, decimal fractions, subnormals, non-finite) x 9 units x 4 call forms and of duration lattice x float sub-lattice through the real float interop, judged by exact integer arithmetic on the decoded floats; watchdog for the no-hang clause",
   text="unit x float in four call forms over ~17 000 floats x 9 units is compared exactly with clamp(trunc(fl(x*f))) computed on the decoded mantissa/exponent; to_seconds/to_unit are compared with the correctly rounded exact rational within 8 ulp (measured worst case reported) and checked monotone along the sorted lattice; Duration*f64 (both orders) must lie within 1 ns + 4 ulp of the exact dyadic product; compose_f64 is checked against the saturating sum of its terms; a watchdog turns a case that does not return within 10/30 s into a violation.",
   note="Trusted: IEEE-754 double multiplication for the one product the statement prescribes; from_parts/to_parts (C02). Known finding D1 (reader below -1 century) matched by defect model.",
   ref="DESIGN.md §4 C18"),
 "C14": dict(
   technique="bounded explicit-state model checking: exhaustive enumeration of duration lattice x step lattice (both signs) and epoch lattice x steps x 9 scales through the real floor/ceil/round/approx, plus stateright BFS over chains of these operations, against a div_euclid reference model",
   text="Every (duration, step) pair of the lattices (steps 1 ns .. centuries .. MAX of both signs, and 0) and every (scale, count within +-100 centuries, step) triple is run through the real floor/ceil/round (and approx) and compared with the div_euclid model on the i128 count, including the side conditions floor <= d < ceil; a stateright BFS chains the operations (depth 3 quick / 4 thorough) from non-initial states and checks idempotence.",
   note="Trusted: from_parts/to_parts (C02). Where the true floor is below the range (ceil/round) the statement is ambiguous: counted don't-care; when the true ceil is above the range both readings of round are accepted. Known finding D1 via exact defect model.",
   ref="DESIGN.md §4 C14"),
 "C01": dict(
   technique="bounded explicit-state model checking of the real operators: exhaustive enumeration of lattice products (all ordered pairs of the duration lattice, lattice x i64 factor lattice, lattice x units) plus stateright BFS over operation sequences, each step co-simulated with an i128 reference model",
   text="Every ordered pair of the duration lattice (century anchors incl. both bounds, dense windows round 0, +-1..3 centuries, MIN, MAX and the i64 limits) is run through + - += -=, every lattice x factor pair through * / (both operand orders), every lattice x unit pair through the Unit forms, and a stateright BFS explores all operation sequences up to depth 4 (quick) / 5 (thorough) from non-initial states; Unit + Unit / Unit - Unit for all 81 pairs; each real result is compared with clamp(i128 op). Exhaustive over the stated finite space, not a proof for all 2^160 pairs.",
   note="Trusted: Duration::from_parts(c, n<century) / to_parts() (cross-checked by C02), the i128 model (a dozen lines), rustc overflow checks turning wraps into observable panics. Known finding D1 (total_nanoseconds below -1 century, pinned by the repo's own test) is matched by an exact defect model.",
   ref="DESIGN.md §4 C01"),
}
# sentences appended to the texts above: what the three seeding rounds added (DESIGN.md §6.2)
EXTRA = {
 "C01": " Every Duration read through the abstraction function is also checked for canonical form (all checks inherit this monitor).",
 "C02": " compose: sign over {i8::MIN,-1,0,1,i8::MAX} in the full product and a far-range family (one field at k centuries +-1 unit up to 32768, or u64::MAX).",
 "C04": " Float seconds: exact-integer values up to 1e13 s of both signs (beyond the i64 nanosecond range).",
 "C06": " Providers: prefix files, five layout variants and three files announcing future leap seconds (2035, 2040 beyond 2^32 s, 2100, 3000). A conversion that returns the right count in a denormalised Duration is a violation.",
 "C07": " ET<->TDB directly on the same counts (c07.cross, 2 x 30 ns at the instant's own TAI) and the to_jde_et/tdb_duration accessors (exactly the duration + JD 2451545.0 d).",
 "C09": " Alternate formatters and to_gregorian_str(other scale) from all nine source scales must equal Display / to_gregorian_str of the converted epoch.",
 "C10": " Deserialize is driven through from_str, to_value/from_value, from_reader and escaped JSON text.",
 "C11": " Deserialize is driven through from_str, to_value/from_value, from_reader and escaped JSON text.",
 "C12": " c12.far: same-scale pairs near both ends of the representable range in every scale.",
 "C13": " Alphabets carry one multi-byte character per predicate class (white space, non-ASCII digits, length-changing case mappings); c13.year_scan: geometric lattice of years up to 5e9 (ratio 1.0005 / 1.0001).",
 "C14": " A zero step on an epoch must give the reference epoch of its scale.",
 "C15": " c15.medium: five non-round steps x every item count 1..512 (2048) x spans -1..+3 ns round a whole number of steps; every series is driven again by collect(), a for loop and by_ref().take(j)+rest; c15.huge: series of 2^53..2^80 items (first items and take(3).collect()).",
 "C16": " The epoch part runs on epochs of all nine scales (own-scale civil date-times; don't-care where the TAI and own-scale dates differ).",
 "C17": " The origin of every view (JD 0, MJD 0, UNIX 0, J2000, 1900) is a lattice anchor; {:p} must print to_unix_seconds().",
 "C18": " compose_f64: sign over {i8::MIN,-1,0,1,i8::MAX}.",
 "C19": " Sub-second digit-group lattice {000,001,250,999}^3 through the nine constants and %f; to_isoformat; %w is the weekday of the printed (own-scale) date.",
 "C20": " Day-of-year sweep includes every leap-second year and the next, day fractions up to 1-1e-9, and duration_in_year read directly.",
}
# what the audit round added / tightened (DESIGN.md §6.3)
AUDIT = {
 "C02": " The non-failing 64-bit accessor may return the i64 bound only when the count does not fit.",
 "C04": " Float seconds include integer-valued floats whose product with 1e9 is inexact in f64.",
 "C06": " Inside an inserted interval only the entry's UTC timestamp or the nanosecond before it do not go backwards; today's convention is known finding D37.",
 "C10": " Numeric forms: exact integer expectation, tolerance 8 ulp of the value itself + 1 ns (C18's truncation of a float count of a unit).",
 "C11": " Parsed numbers are compared with the value the decimal text denotes (36 values incl. 4.1, 0.57, counts beyond 2^53 ns and fractions of 22-40 digits).",
 "C12": " c12.far[cross]: two different uniform scales near the range ends (known finding D51 where the conversion saturates).",
 "C14": " ceil is judged also when the floor is below the range.",
 "C15": " Spans equal to Duration::MAX; for mixed-scale series across a leap second either span reading is accepted.",
 "C16": " The _at_midnight/_at_noon variants are judged for every epoch of every scale.",
 "C17": " Constructors from_jde_et/from_jde_tdb and the GNSS wrappers; tolerance 8 ulp of max(|x|, one second) + 1 ns truncation.",
 "C19": " Offsets are parsed back with the same format; structure families of formats (extra tokens, names in every position, two-character separators, missing separators), seven structural classes being known findings D43-D48, D59.",
 "C20": " The {:o} form prints the GPST count or returns a formatting error.",
}
# what the second audit round added / tightened (DESIGN.md §6.4)
AUDIT2 = {
 "C13": " c13.range_fmt also puts a sign in front of every numeric field of five formats and overrides a month/day field by %j, a repetition or a month name (second audit round).",
 "C15": " When the two span readings differ and the longer cannot be stepped through, the short count or a correct 1000-item prefix beyond it is required.",
 "C19": " %w and %y pinned, name tokens without a separator and %y formats in the parse-back structures (second audit round).",
}
# API-coverage review: every pub fn no check called
for _k, _v in {"C05": " c05.float_ctor: from_<scale>_seconds/_days of the six scales on a 76-value float lattice; to_tai_parts / from_tai_parts / to_duration_since_j1900 on every lattice point.",
               "C06": " c06.float_ctor: from_utc_seconds/_days; from_utc_duration builds every other UTC epoch.",
               "C07": " c07.float_ctor: from_et_seconds / from_tdb_seconds; the days/centuries-since-J2000 accessors are compared with the duration accessors."}.items():
    AUDIT2[_k] = AUDIT2.get(_k, "") + _v
# round 7 (DESIGN.md §6.2 seventh round, §6.6)
for _k, _v in {"C01": " c01.raw_operand: operands in the raw forms the constructor accepts (every century anchor x a nanosecond part of 0..5 whole centuries and the top of the u64 range) through twelve operations (round 7).",
               "C03": " c03.derived also takes its operands from the saturated bounds (MAX - a, (MAX + 1 day) - a, MIN + a, ...) and whole-century steps (round 7).",
               "C11": " The Epoch time-of-day accessors are compared with the decomposition from the reference epoch onward only (before it the statement, which is about durations, does not decide between the two readings; round 7).",
               "C20": " from_time_of_week: every week 0..=8192 (thorough 131 072), a geometric scan of the rest, every day boundary and every hour of the first day of the week (round 7)."}.items():
    AUDIT2[_k] = AUDIT2.get(_k, "") + _v
# round 8: interior scans (DESIGN.md §3.2, §6.5a)
for _k in ["C%02d" % i for i in range(1, 21)]:
    if _k not in ("C13",):
        AUDIT2[_k] = AUDIT2.get(_k, "") + " Interior scans (<id>.scan_*): the same judge functions over 10^5-10^7 (thorough: up to 10^8) points of deterministic low-discrepancy streams of unremarkable values (whole range, +-100 centuries, per binade; calendar days x nanoseconds of day), for thresholds and digit conditions a change introduces away from every boundary of today's code (round 8)."
for _k, _v in {"C02": " Every whole century of the range through the count constructors and the unit forms.",
               "C06": " Provider files of 70 KB - 1 MB.",
               "C07": " Phase anchors: zero crossings, extrema and whole-ms/us levels of both periodic terms (bisection on the reference form) +-0.5 s .. 2 h.",
               "C08": " Structured times of day (whole hours / minutes / seconds / ms / us) on a day sub-lattice.",
               "C09": " Structured times of day (whole hours / minutes / seconds / ms / us) on a day sub-lattice.",
               "C10": " Numeric forms also written with 12, 20, 25 and 40 decimals.",
               "C11": " c11.long_fraction: counts written with 9-80 decimals, rounded up or truncated from the exact quotient.",
               "C12": " c12.scan_etdb: ET/TDB operands 101 ns .. 1 us from the other instant at every magnitude.",
               "C13": " Inputs made of 8-4097 well-formed pieces; short unit / name texts parsed as the front part of a longer buffer must give the same verdict; day-of-year-first formats in the range clause (round 8).",
               "C14": " Every small count of every unit as a step, tie probes k|s| + |s|/2 -2..+2 ns for every step, approx at the half-unit points.",
               "C15": " Series of 9-90 million items with odd sub-second steps; for mixed-scale series either span reading is accepted only where the formula's count is the larger one.",
               "C16": " Order menu over day numbers +-2^k and +-j x 2^16 days apart.",
               "C17": " Unit-parameterised views in all nine units.",
               "C19": " Order menu over every day of a calendar year (all ordered pairs)."}.items():
    AUDIT2[_k] = AUDIT2.get(_k, "") + _v
# order independence (DESIGN.md §1 Mode A')
for _k in ["C%02d" % i for i in range(1, 21)]:
    AUDIT2[_k] = AUDIT2.get(_k, "") + " Order independence (<id>.order): every ordered pair of a menu of judged operations is run back to back on one thread and the second is judged; when the library sources contain shared mutable state (scanned on every run; none in the unchanged tree) the bound is raised to fresh-thread pairs, all 4-call sequences over a sub-menu, strided walks, repetitions, cross-API preludes and fresh-process runs."
for _k, _v in AUDIT2.items():
    AUDIT[_k] = AUDIT.get(_k, "") + _v
for _k, _v in AUDIT.items():
    EXTRA[_k] = EXTRA.get(_k, "") + _v
for _k, _v in EXTRA.items():
    CLAIMED[_k]["text"] += _v


ALL = [f"C{i:02d}" for i in range(1, 21)]

def main():
    checks = []
    for pid in ALL:
        if pid not in CLAIMED: continue
        c = CLAIMED[pid]
        checks.append({
            "property_id": pid,
            "quick_cmd": f"./vf check {pid} quick",
            "thorough_cmd": f"./vf check {pid} thorough",
            "evidence_file": f"/verif/evidence/{pid}.json",
            "replay_cmd_template": "./vf replay {path}",
            "engine": "hmc",
            "level_claimed": {"category": "model_checking", "text": c["text"], "design_ref": c["ref"]},
            "level_note": c["note"],
            "technique": c["technique"],
        })
    na = [{"property_id": p, "reason": "check not built yet"} for p in ALL if p not in CLAIMED]
    m = {
        "version": 1,
        "setup_cmd": "./vf setup",
        "hooks": {
            "guard": "hifitime_verif",
            "enable": "none needed: every observation point is public API; the harness depends on /repo by path and rebuilds it on every check (guard name reserved, no source commit uses it)",
            "baseline_off_cmd": "cd /repo && cargo test --workspace --no-fail-fast --offline",
            "source_commits": [],
            "add_only": True,
        },
        "engines": [{
            "name": "hmc", "path": "/verif/harness",
            "serves_properties": [c["property_id"] for c in checks],
            "kind_free_text": "Rust binary linking the real hifitime crate from /repo: (A) stateright 0.31 breadth-first search over operation sequences with implementation and reference model stepped together, (B) exhaustive parallel enumeration of finite lattice products; every trace judged by an executable reference model",
        }],
        "checks": checks,
        "notes": "exit 0 = held on everything explored (KNOWN-FINDING lines are informational), exit 1 = VIOLATION lines, exit 2 = machinery failure. Known findings: /verif/KNOWN_FINDINGS.txt, witnesses in /verif/findings/. fix: commits in /repo are listed as 'fixed:' lines there.",
        "not_applicable": na,
    }
    json.dump(m, open("/verif/MANIFEST.json", "w"), indent=1)
    print("MANIFEST.json written:", len(checks), "checks,", len(na), "not claimed")

main()
