#!/bin/bash
# Runs the repository's own suite (guard off: there are no hooks) and prints a one-line summary.
cd /repo && CARGO_NET_OFFLINE=true cargo test --workspace --no-fail-fast --offline 2>&1 | awk '/^test result/ {p+=$4; f+=$6} /FAILED|panicked/ {print} END {print "SUITE passed=" p " failed=" f; exit (f>0)}'
