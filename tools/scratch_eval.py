#!/usr/bin/env python3
"""Evaluate patches against the checks in a scratch copy (never touches /repo or /verif/evidence).

usage: scratch_eval.py [--tier quick] [--keep] [--no-suite] <name>=<patch.diff>:<Cxx>[,<Cxx>...][:<demo.rs>] ...
With a demo file (an integration test), it is copied to tests/seed_demo.rs and must FAIL with the patch and PASS without.
For each patch: apply it to a scratch worktree of /repo HEAD, run the repository's own suite there (must pass for
the patch to count as 'invisible to the tests'), build a scratch copy of the harness against the scratch repo and run
the listed checks. Prints a table and writes /verif/.work/scratch_eval.json.
The scratch directory (/tmp/hmc-scratch-<pid>) and all build output in it are removed at the end."""
import subprocess, sys, os, shutil, re, json, time
args = sys.argv[1:]
tier = 'quick'; keep = False; suite = True; outp = '/verif/.work/scratch_eval.json'
while args and args[0].startswith('--'):
    a = args.pop(0)
    if a == '--tier': tier = args.pop(0)
    elif a == '--keep': keep = True
    elif a == '--no-suite': suite = False
    elif a == '--out': outp = args.pop(0)
jobs = []
for a in args:
    name, rest = a.split('=', 1)
    parts = rest.split(':')
    patch, props = parts[0], parts[1]
    demo = os.path.abspath(parts[2]) if len(parts) > 2 else None
    jobs.append((name, os.path.abspath(patch), props.split(','), demo))
S = f"/tmp/hmc-scratch-{os.getpid()}"
def sh(cmd, **kw): return subprocess.run(cmd, shell=True, capture_output=True, text=True, **kw)
os.makedirs(S)
env = dict(os.environ, CARGO_NET_OFFLINE='true')
results = {}
try:
    r = sh(f"git -C /repo worktree add -q --detach {S}/repo HEAD")
    assert r.returncode == 0, r.stderr
    shutil.copytree('/verif/harness', f'{S}/harness', ignore=shutil.ignore_patterns('target'))
    t = open(f'{S}/harness/Cargo.toml').read().replace('path = "/repo"', f'path = "{S}/repo"')
    open(f'{S}/harness/Cargo.toml', 'w').write(t)
    cfg = open(f'{S}/harness/.cargo/config.toml').read().replace('/verif/target', f'{S}/target-h')
    open(f'{S}/harness/.cargo/config.toml', 'w').write(cfg)
    os.makedirs(f'{S}/verif'); shutil.copy('/verif/KNOWN_FINDINGS.txt', f'{S}/verif/')
    henv = dict(env, HMC_REPO=f'{S}/repo', HMC_VERIF=f'{S}/verif', CARGO_TARGET_DIR=f'{S}/target-h')
    renv = dict(env, CARGO_TARGET_DIR=f'{S}/target-r')
    def run_demo(demo):
        shutil.copy(demo, f'{S}/repo/tests/seed_demo.rs')
        r = sh(f"cd {S}/repo && cargo test --offline --test seed_demo 2>&1 | grep -E '^test result' | tail -1", env=renv)
        os.remove(f'{S}/repo/tests/seed_demo.rs')
        return r.stdout.strip()
    for name, patch, props, demo in jobs:
        res = {'patch': patch, 'checks': {}}
        if demo:
            res['demo_without_patch'] = run_demo(demo)
            print(f"[{name}] demo without patch: {res['demo_without_patch']}")
        r = sh(f"git -C {S}/repo apply {patch}")
        if r.returncode != 0:
            res['error'] = 'patch does not apply: ' + r.stderr.strip()[:300]; results[name] = res; print(name, res['error']); continue
        try:
            if suite:
                t0 = time.time()
                r = sh(f"cd {S}/repo && cargo test --workspace --no-fail-fast --offline 2>&1 | awk '/^test result/ {{p+=$4; f+=$6}} END {{print p, f}}'", env=renv)
                p_, f_ = (r.stdout.split() + ['0', '0'])[:2]
                res['suite'] = {'passed': int(p_), 'failed': int(f_)}
                print(f"[{name}] suite passed={p_} failed={f_} ({time.time()-t0:.0f}s)")
            if demo:
                res['demo_with_patch'] = run_demo(demo)
                print(f"[{name}] demo with patch:    {res['demo_with_patch']}")
            b = sh(f"cd {S}/harness && cargo build --release --offline 2>&1 | tail -3", env=henv)
            if not os.path.exists(f'{S}/target-h/release/hmc'):
                res['error'] = 'harness build failed: ' + b.stdout[-400:]; print(name, res['error'])
            else:
                for p in props:
                    t0 = time.time()
                    r = sh(f"{S}/target-h/release/hmc check {p} {tier}", env=henv)
                    sigs = re.findall(r"VIOLATION property=\S+ replay=\S+ signature=(\S+) traces=(\d+)", r.stdout)
                    res['checks'][p] = {'exit': r.returncode, 'n_signatures': len(sigs), 'signatures': sigs[:6], 'wall_s': round(time.time()-t0, 1)}
                    flag = {0: 'MISSED', 1: 'CAUGHT'}.get(r.returncode, 'MACHINERY')
                    print(f"[{name}] {p} {tier}: {flag} exit={r.returncode} {time.time()-t0:.1f}s " + ' | '.join(f"{s} x{n}" for s, n in sigs[:3]) + (f" (+{len(sigs)-3})" if len(sigs) > 3 else ''))
                    if r.returncode not in (0, 1): print(r.stderr[-500:])
        finally:
            sh(f"git -C {S}/repo checkout -- . && git -C {S}/repo clean -fdq -e target")
        results[name] = res
finally:
    os.makedirs('/verif/.work', exist_ok=True)
    json.dump(results, open(outp, 'w'), indent=1)
    if not keep:
        sh(f"git -C /repo worktree remove --force {S}/repo")
        shutil.rmtree(S, ignore_errors=True)
        sh("git -C /repo worktree prune")
