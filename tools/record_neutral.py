#!/usr/bin/env python3
"""Developer tool: file the property-PRESERVING changes written by independent sub-agents (round 7) under /verif/neutral/<id>/.
usage: record_neutral.py <scratch_eval result json> ...   (job names Cxx-r7nN, sources in /tmp/wt7-out/N/Cxx/N)
A change is kept if the patch applied and the repository's own suite passed with it. The verdict of the property's check is
recorded as it was: exit 0 = quiet (as it must be), exit 1 = an alarm that has to be adjudicated (meta.json: adjudication)."""
import json, sys, os, shutil, re
for f in sys.argv[1:]:
    res = json.load(open(f))
    for name, r in res.items():
        m = re.match(r'(C\d\d)-r7n(\d+)$', name)
        if not m: continue
        prop, n = m.group(1), m.group(2)
        src = f'/tmp/wt7-out/N/{prop}/{n}'
        ok = 'error' not in r and r.get('suite', {}).get('failed') == 0 and r.get('suite', {}).get('passed', 0) >= 109
        if not ok:
            print(f"{name}: NOT KEPT", {k: r.get(k) for k in ('error', 'suite')}); continue
        dst = f'/verif/neutral/{prop}-r7n{n}'
        os.makedirs(dst, exist_ok=True)
        shutil.copy(f'{src}/patch.diff', dst)
        if os.path.exists(f'{src}/keep_demo.rs'): shutil.copy(f'{src}/keep_demo.rs', dst)
        txt = open(f'{src}/meta.txt').read() if os.path.exists(f'{src}/meta.txt') else ''
        old = {}
        if os.path.exists(f'{dst}/meta.json'):
            try: old = json.load(open(f'{dst}/meta.json'))
            except Exception: old = {}
        meta = {
            'id': f'{prop}-r7n{n}', 'property': prop,
            'origin': 'independent sub-agent given only the property text and a scratch worktree; asked for a legitimate change in the anchored code under which the property still holds for every input (1 re-implementation of the core algorithm, 2 behaviour the statement leaves open, 3 structural refactor / new API, 4 performance)',
            'kind': (re.search(r'[Kk][Ii][Nn][Dd]:?\s*\**\s*(\d)', txt) or [None, None])[1],
            'agent_notes': txt,
            'verified_here': {'how': 'tools/scratch_eval.py in a scratch worktree of /repo HEAD with a scratch copy of the harness', 'suite_with_change': r['suite'],
                              'keep_demo_without_change': r.get('demo_without_patch'), 'keep_demo_with_change': r.get('demo_with_patch')},
            'checks': {p: {'tier': 'quick', 'verdict': {0: 'QUIET', 1: 'ALARM'}.get(c['exit'], 'MACHINERY'), 'exit': c['exit'], 'signatures': [s for s, _ in c['signatures']][:6], 'n_signatures': c['n_signatures']} for p, c in r['checks'].items()},
        }
        for k in ('adjudication', 'history'):
            if k in old: meta[k] = old[k]
        json.dump(meta, open(f'{dst}/meta.json', 'w'), indent=1)
        print(f"{name}: kept ->", dst, {p: meta['checks'][p]['verdict'] for p in meta['checks']})
