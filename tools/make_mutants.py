#!/usr/bin/env python3
"""Developer tool: (re)generate /verif/mutants/*.patch from the table below, in a scratch worktree of /repo HEAD.
Each mutant is one small textual edit; the patch header records the property it targets and why it is realistic."""
import subprocess, os, sys, json
WT = '/tmp/mutwt'
def sh(c): return subprocess.run(c, shell=True, capture_output=True, text=True)
if not os.path.isdir(WT):
    r = sh(f'git -C /repo worktree add -q --detach {WT} HEAD'); assert r.returncode == 0, r.stderr
sh(f'git -C {WT} checkout -q --detach $(git -C /repo rev-parse HEAD) && git -C {WT} checkout -- .')
M = [
 # id, property, file, old, new, description
 ("C01-1","C01","src/duration/ops.rs","self.total_nanoseconds().saturating_div(divisor))","self.total_nanoseconds().div_euclid(divisor))","Duration / i64 rounds toward minus infinity instead of truncating toward zero (negative, inexact quotients only)"),
 ("C01-2","C01","src/duration/ops.rs","== i32::from(i16::MIN) - 1","<= i32::from(i16::MIN) - 1","Add: the 'carry brings the sum back in range' rescue also fires when the century sum is below -32769 (returns a value instead of MIN)"),
 ("C01-3","C01","src/duration/ops.rs","Self::from_parts(-1 - self.centuries, nanoseconds)","Self::from_parts(-self.centuries - 1, nanoseconds)","Neg: regression of the overflow fix in the most negative century"),
 ("C02-1","C02","src/timeunits.rs","Unit::Week => NANOSECONDS_PER_DAY as i64 * DAYS_PER_WEEK_I64,","Unit::Week => NANOSECONDS_PER_DAY as i64 * (DAYS_PER_WEEK_I64 - 1),","integer weeks are 6 days long (the float factor table is untouched)"),
 ("C02-2","C02","src/duration/mod.rs","} else if centuries_i128 < i16::MIN.into() {","} else if centuries_i128 <= i16::MIN.into() {","from_total_nanoseconds saturates one century early on the negative side"),
 ("C02-3","C02","src/duration/mod.rs","if self.centuries < -3 || self.centuries >= 3 {","if self.centuries < -2 || self.centuries >= 3 {","regression of D36: century -3 (most of which fits on an i64) refused again by the 64-bit accessors"),
 ("C04-1","C04","src/epoch/ops.rs","        self.duration - other.to_time_scale(self.time_scale).duration\n    }\n}\n\nimpl SubAssign<Duration>","        self.to_time_scale(other.time_scale).duration - other.duration\n    }\n}\n\nimpl SubAssign<Duration>","Epoch - Epoch measured in the right operand's scale (differs across leap seconds and for ET/TDB)"),
 ("C08-1","C08","src/epoch/gregorian.rs","            | 1996\n            | 1999","            | 1996\n            | 1998\n            | 1999","january_years gains 1998: 1997-12-31T23:59:60 becomes valid"),
 ("C08-2","C08","src/epoch/gregorian.rs","        || minute > 59","        || minute > 60","minute 60 accepted"),
 ("C10-1","C10","src/epoch/gregorian.rs","            -(i64::from(decomposed[7]) * Unit::Hour + i64::from(decomposed[8]) * Unit::Minute)\n        } else {\n            i64::from(decomposed[7]) * Unit::Hour + i64::from(decomposed[8]) * Unit::Minute","            -(i64::from(decomposed[7]) * Unit::Hour) + i64::from(decomposed[8]) * Unit::Minute\n        } else {\n            i64::from(decomposed[7]) * Unit::Hour + i64::from(decomposed[8]) * Unit::Minute","positive offsets: the minutes are added instead of subtracted (misplaced parenthesis)"),
 ("C10-2","C10","src/epoch/mod.rs","let s = self.to_string(); // Assuming `Display` is implemented for `Epoch`","let s = format!(\"{self:?}\");","serde serializes through Debug (UTC rendering): non-UTC epochs change scale on a round trip"),
 ("C12-1","C12","src/epoch/ops.rs","            self.duration.to_parts() == other.duration.to_parts()\n        } else {","            self.duration == other.duration\n        } else {","regression: same-scale Epoch equality delegates to Duration equality (x == -x)"),
 ("C12-2","C12","src/epoch/ops.rs","        if *self < other {\n            *self","        if self.duration < other.duration {\n            *self","Epoch::min compares raw durations, ignoring the time scales"),
 ("C13-1","C13","src/duration/parse.rs","    if !s.is_ascii() {","    if false && !s.is_ascii() {","regression: parse_offset slices non-ASCII input"),
 ("C14-1","C14","src/duration/mod.rs","Self::from_total_nanoseconds(if total_ns - floored_ns < ceiled_ns - total_ns {","Self::from_total_nanoseconds(if total_ns - floored_ns <= ceiled_ns - total_ns {","round: ties go down"),
 ("C15-1","C15","src/timeseries.rs","    fn size_hint(&self) -> (usize, Option<usize>) {\n        (self.len(), Some(self.len().saturating_add(1)))","    fn nth(&mut self, n: usize) -> Option<Epoch> {\n        self.cur = n as i64;\n        self.next()\n    }\n\n    fn size_hint(&self) -> (usize, Option<usize>) {\n        (self.len(), Some(self.len().saturating_add(1)))","an Iterator::nth override that reads n as an absolute index (wrong on a partially consumed series and under skip / step_by)"),
 ("C16-1","C16","src/epoch/ops.rs","(days.rem_euclid(Weekday::DAYS_PER_WEEK_I128) as u8).into()","((days % Weekday::DAYS_PER_WEEK_I128) as u8).into()","weekday uses % instead of rem_euclid: wrong before 1900"),
 ("C18-2","C18","src/timeunits.rs","            if total_ns.abs() < (i64::MAX as f64) {\n                Duration::from_truncated_nanoseconds(total_ns as i64)\n            } else {\n                Duration::from_total_nanoseconds(total_ns as i128)\n            }\n        }\n    }\n}\n\n#[test]","            if total_ns.abs() <= (i64::MAX as f64) {\n                Duration::from_truncated_nanoseconds(total_ns as i64)\n            } else {\n                Duration::from_total_nanoseconds(total_ns as i128)\n            }\n        }\n    }\n}\n\n#[test]","Unit * f64: i64 cast used at exactly 2^63 (saturating cast loses one nanosecond)"),
 ("C19-1","C19","src/efmt/formatter.rs","                        if !item.optional || nanos > 0 {","                        if !item.optional || nanos >= 1000 {","optional %f? omitted below one microsecond"),
 ("C20-1","C20","src/epoch/mod.rs","        if centuries != 0 {","        if centuries > 0 {","nanosecond counters return a number instead of an error for negative counts"),
 ("C20-2","C20","src/epoch/initializers.rs","        nanos += i128::from(week) * Weekday::DAYS_PER_WEEK_I128 * i128::from(NANOSECONDS_PER_DAY);","        nanos += i128::from(u64::from(week) * 7 * NANOSECONDS_PER_DAY);","from_time_of_week multiplies in u64: overflows beyond ~30 500 weeks"),
]
os.makedirs('/verif/mutants', exist_ok=True)
made = []
for mid, prop, f, old, new, desc in M:
    path = f'{WT}/{f}'
    s = open(path).read()
    if mid == "C09-1":
        # second occurrence family: the UpperHex impl
        i = s.index("impl fmt::UpperHex for Epoch")
        j = s.index('"{:04}-{:02}-{:02}T{:02}:{:02}:{:02} {}"', i)
        s2 = s[:j] + '"{:04}-{:02}-{:02}T{:02}:{:02}:{:2} {}"' + s[j+len('"{:04}-{:02}-{:02}T{:02}:{:02}:{:02} {}"'):]
    elif mid == "C17-2":
        i = s.index("pub fn to_mjd_tt_duration")
        j = s.index("MJD_J1900", i)
        s2 = s[:j] + "MJD_J2000" + s[j+len("MJD_J1900"):]
    elif mid == "C16-1":
        # the first occurrence: Epoch::weekday_in_time_scale (the second one is the calendar-date helper of next/previous)
        s2 = s.replace(old, new, 1)
    else:
        if s.count(old) != 1:
            print(f"SKIP {mid}: pattern found {s.count(old)} times"); continue
        s2 = s.replace(old, new)
    open(path, 'w').write(s2)
    d = sh(f'git -C {WT} diff').stdout
    sh(f'git -C {WT} checkout -- .')
    if not d.strip():
        print(f"SKIP {mid}: empty diff"); continue
    open(f'/verif/mutants/{mid}.patch', 'w').write(d)
    made.append({"id": mid, "property": prop, "file": f, "description": desc})
json.dump(made, open('/verif/mutants/catalogue.json', 'w'), indent=1)
print(len(made), "mutants written")
