#!/usr/bin/env python3
"""After /repo history was rewritten (rustfmt folded into the fix commits), map the commit ids in the
`fixed:` lines of KNOWN_FINDINGS.txt to the current ids by commit subject. Developer tool."""
import re, subprocess
def git(*a): return subprocess.run(['git','-C','/repo',*a],capture_output=True,text=True).stdout.strip()
cur = {}
for line in git('log','--format=%h %s','34e2e14..HEAD').splitlines():
    h, s = line.split(' ',1); cur[s] = h
out=[]
for line in open('/verif/KNOWN_FINDINGS.txt'):
    m = re.match(r'(fixed:\s+property=\S+\s+)([0-9a-f]{7,40})(\s.*)', line, re.S)
    if m:
        subj = git('show','-s','--format=%s',m.group(2))
        if subj in cur:
            line = m.group(1)+cur[subj]+m.group(3)
        else:
            print('UNMAPPED', line.strip()[:100])
    out.append(line)
open('/verif/KNOWN_FINDINGS.txt','w').write(''.join(out))
print('ok')
