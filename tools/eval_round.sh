#!/bin/bash
# usage: tools/eval_round.sh <round-tag e.g. r4> <out-dir e.g. /tmp/wt6-out> <Cxx> [extra check ids, comma separated]
# evaluates the (up to) three seeded changes of one property with tools/scratch_eval.py (developer tool)
tag=$1; dir=$2; c=$3; extra=${4:+,$4}
args=""
for n in 1 2 3; do
  if [ -f $dir/$c/$n/patch.diff ]; then args="$args $c-${tag}s$n=$dir/$c/$n/patch.diff:$c$extra:$dir/$c/$n/seed_demo.rs"; fi
done
python3 /verif/tools/scratch_eval.py --out /verif/.work/${tag}_$c.json $args 2>&1 | grep -v "^WARNING" | cut -c1-320
