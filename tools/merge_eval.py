#!/usr/bin/env python3
"""Developer tool: merge a --no-suite re-evaluation (checks only) into the full first evaluation of the same seeds.
usage: merge_eval.py <first.json> <retry.json> <out.json>   (the retry's 'checks' are added to / replace the first's per property; the suite and
demo results stay those of the first, full evaluation)"""
import json, sys
a = json.load(open(sys.argv[1])); b = json.load(open(sys.argv[2]))
out = {}
for k, v in b.items():
    if k in a:
        m = dict(a[k]); c = dict(m.get('checks', {})); c.update(v['checks']); m['checks'] = c; out[k] = m
json.dump(out, open(sys.argv[3], 'w'), indent=1)
print(sorted(out))
