#!/usr/bin/env python3
"""Prints the markdown tables of DESIGN.md §6 from mutants/catalogue.json and seeded/*/meta.json."""
import json, glob, re
def short(s, n):
    s = (s or '').replace('|', '/').replace('\n', ' ')
    return s if len(s) <= n else s[:n-1] + '…'
print("| mutant | change | suite (pass/fail) | quick check | first signature |")
print("|---|---|---|---|---|")
for m in json.load(open('/verif/mutants/catalogue.json')):
    r = m.get('result') or {}
    su = r.get('suite', ['?', '?'])
    print(f"| {m['id']} | {short(m['description'], 150)} | {su[0]}/{su[1]} | {m['property']}: {r.get('verdict')} ({r.get('wall')} s) | `{short(r.get('first_signature'), 70)}` |")
print()
print("| seed | change (sub-agent's summary, shortened) | needs to manifest | demo w/o → with | suite with | quick check | first signature | final tree |")
print("|---|---|---|---|---|---|---|---|")
n = miss = 0
for d in sorted(glob.glob('/verif/seeded/*/meta.json')):
    m = json.load(open(d)); v = m['verified_here']; ck = m['checks']; n += 1
    res = '; '.join(f"{p}: {c['verdict']}" for p, c in ck.items())
    sig = next((c['signatures'][0] for c in ck.values() if c['signatures']), '')
    dem = ('pass' if 'ok.' in v['demo_without_change'] else '?') + ' → ' + ('FAIL' if 'FAILED' in v['demo_with_change'] else '?')
    star = (' ★' if 'history' in m else '') + (' ◆' if 'breaks' in m else '')
    ft = (m.get('final_tree') or {}).get('status', '?')
    print(f"| {m['id']}{star} | {short(m.get('summary'), 170)} | {short(m.get('needs_to_manifest'), 120)} | {dem} | {v['suite_with_change']['passed']}/{v['suite_with_change']['failed']} | {res} | `{short(sig, 60)}` | {ft} |")
print(f"\n{n} seeded changes; ★ = missed by the property's own check at first evaluation and caught after the check was strengthened (details in the seed's meta.json); ◆ = the change does not break the statement of the property it was written for but that of another property, whose check reports it (meta.json: `breaks`, `note`). Last column: re-run against the final tree (after all fixes): caught / superseded = the patch no longer applies or compiles because a later fix rewrote the same lines / neutralised = a later fix removed the path through which the change broke this property (meta.json: `final_tree`).")
