#!/usr/bin/env python3
"""Prints the markdown tables of DESIGN.md §6 from mutants/catalogue.json and seeded/*/meta.json."""
import json, glob, os
print("| mutant | property | change | suite | quick check | first signature |")
print("|---|---|---|---|---|---|")
for m in json.load(open('/verif/mutants/catalogue.json')):
    r = m.get('result') or {}
    print(f"| {m['id']} | {m['property']} | {m['description']} | {r.get('suite', ['?','?'])[0]} passed / {r.get('suite', ['?','?'])[1]} failed | {r.get('verdict')} in {r.get('wall')} s | `{(r.get('first_signature') or '')[:80]}` |")
print()
print("| seed | property | change (sub-agent's summary) | needs to manifest | demo without / with change | suite with change | quick check | first signature |")
print("|---|---|---|---|---|---|---|---|")
for d in sorted(glob.glob('/verif/seeded/*/meta.json')):
    m = json.load(open(d))
    v = m['verified_here']
    ck = m['checks']
    res = '; '.join(f"{p}: {c['verdict']}" for p, c in ck.items())
    sig = next((c['signatures'][0] for c in ck.values() if c['signatures']), '')
    dem = ('pass' if 'ok.' in v['demo_without_change'] else '?') + ' / ' + ('FAIL' if 'FAILED' in v['demo_with_change'] else '?')
    hist = ' (' + m['history'].split(':')[0] + ': see meta.json)' if 'history' in m else ''
    print(f"| {m['id']} | {m['property']} | {(m.get('summary') or '').replace('|','/')[:160]} | {(m.get('needs_to_manifest') or '').replace('|','/')[:140]} | {dem} | {v['suite_with_change']['passed']}/{v['suite_with_change']['failed']} | {res}{hist} | `{sig[:70]}` |")
