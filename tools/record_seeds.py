#!/usr/bin/env python3
"""Developer tool: file the sub-agent seeded changes that were verified by tools/scratch_eval.py under /verif/seeded/<id>/.
usage: record_seeds.py <scratch_eval result json> ...   (job names must look like Cxx-sN and sources live in /tmp/wt-out/Cxx/N)
A change is kept only if: the patch applied, the repository's own suite passed with it, the demonstration passed
without the patch and failed with it (all confirmed here, not taken from the agent's word)."""
import json, sys, os, shutil, re
for f in sys.argv[1:]:
    res = json.load(open(f))
    for name, r in res.items():
        m = re.match(r'(C\d\d)-(r[2345678])?s(\d+)$', name)
        if not m: continue
        prop, rnd, n = m.group(1), m.group(2) or '', m.group(3)
        src = {'': f'/tmp/wt-out/{prop}/{n}', 'r2': f'/tmp/wt2-out/{prop}/{n}', 'r3': f'/tmp/wt3-out/{prop}/{n}', 'r4': f'/tmp/wt6-out/{prop}/{n}', 'r5': f'/tmp/wt8-out/{prop}/{n}', 'r6': f'/tmp/wt10-out/{prop}/{n}', 'r7': f'/tmp/wt7-out/S/{prop}/{n}', 'r8': f'/tmp/wt8-out/{prop}/{n}'}[rnd]
        ok = ('error' not in r and r.get('suite', {}).get('failed') == 0 and r.get('suite', {}).get('passed', 0) >= 109
              and 'ok.' in r.get('demo_without_patch', '') and 'FAILED' in r.get('demo_with_patch', ''))
        if not ok:
            print(f"{name}: NOT KEPT", {k: r.get(k) for k in ('error', 'suite', 'demo_without_patch', 'demo_with_patch')}); continue
        dst = f'/verif/seeded/{prop}-{rnd}s{n}'
        os.makedirs(dst, exist_ok=True)
        shutil.copy(f'{src}/patch.diff', dst); shutil.copy(f'{src}/seed_demo.rs', dst)
        agent = {}
        try: agent = json.load(open(f'{src}/meta.json'))
        except Exception as e:
            try:
                txt = open(f'{src}/meta.txt').read()
                agent = {'kind': (re.search(r'[Kk]ind:?\s*\**\s*(\d)', txt) or [None, None])[1], 'summary': txt, 'needs': (re.search(r'(?is)(manifests?[^\n]*\n(?:.*\n){0,6})', txt) or [None, ''])[1].strip(), 'commands': None}
            except Exception as e2: agent = {'note': f'agent meta unreadable: {e}; {e2}'}
        caught = {p: c for p, c in r['checks'].items()}
        meta = {
            'id': f'{prop}-{rnd}s{n}', 'property': prop, 'origin': 'independent sub-agent given only the property text and a scratch worktree' + {'': '', 'r2': ' (second round: asked for changes of a different character than boundary slips: values produced by other operations, cooperating edits, data-tied, rarely used entry points, left-over state, sub-tolerance precision loss)', 'r3': ' (third round: asked for sequence-dependent bugs, trait-surface bugs, error-path changes, far-range behaviour, semantic drift that looks like an improvement, and bugs planted in shared lower-level code)', 'r4': ' (fourth round: asked for bugs that need a combination of two input dimensions, bugs at ordinary mid-range values, partial regressions of recent repairs, alternative entry points, re-used or copied stateful values, and numerically subtle float changes)', 'r5': ' (fifth round: asked for consistent pairs - a function and its inverse wrong in the same way -, interior table entries, outputs of one operation fed into another family, loop bounds and early exits, dependence on the length or shape of an input, and anything judged hard for a checker that enumerates boundaries with independent reference arithmetic)', 'r8': ' (eighth round: told in general terms what kind of checker they were up against - systematic enumeration of boundary lattices, all entry points, short call sequences, independent reference arithmetic - and asked for what it would miss: interior sets behind a threshold the change itself introduces, combinations of two dimensions each fine alone, long-range dependence, numerically subtle precision loss, two public paths to the same thing that disagree, or anything else judged hard)', 'r7': ' (seventh round: asked for six kinds - two cooperating sites that each look fine alone, values produced by one operation and fed into another, narrow or sparse input sets defined by a relation, rarely used entry points and trait impls, configuration-dependent paths, equivalent-looking rewrites wrong under a rare carry, rounding, overflow or sign alignment)', 'r6': ' (sixth round: asked for pure functions made stateful - wrong only after three or more calls, after a particular earlier call, from the N-th call on or for the first call of the process -, for sparse interior sets defined by an arithmetic relation between arguments, and for equivalent-looking rewrites that differ under a rare carry or sign alignment)'}[rnd], 'kind': agent.get('kind'),
            'summary': agent.get('summary'), 'needs_to_manifest': agent.get('needs'),
            'verified_here': {
                'how': 'tools/scratch_eval.py in a scratch worktree of /repo HEAD with a scratch copy of the harness',
                'suite_with_change': r['suite'], 'demo_without_change': r['demo_without_patch'], 'demo_with_change': r['demo_with_patch'],
            },
            'checks': {p: {'tier': 'quick', 'verdict': {0: 'MISSED', 1: 'CAUGHT'}.get(c['exit'], 'MACHINERY'), 'exit': c['exit'], 'signatures': [s for s, _ in c['signatures']][:4], 'n_signatures': c['n_signatures']} for p, c in caught.items()},
            'agent_commands': agent.get('commands'),
        }
        json.dump(meta, open(f'{dst}/meta.json', 'w'), indent=1)
        print(f"{name}: kept ->", dst, {p: meta['checks'][p]['verdict'] for p in meta['checks']})
