#!/usr/bin/env python3
"""Copy one replay file per KNOWN_FINDINGS `finding:` line into findings/ (developer tool, never run by checks)."""
import json, glob, re, os, sys
for line in open('/verif/KNOWN_FINDINGS.txt'):
    if not line.startswith('finding:'): continue
    prop = re.search(r'property=(\S+)', line).group(1)
    sig = re.search(r'signature=(\S+)', line).group(1)
    wit = re.search(r'witness=(\S+)', line).group(1)
    dst = '/verif/' + wit
    if os.path.exists(dst) and '--force' not in sys.argv: continue
    for f in sorted(glob.glob(f'/verif/replays/{prop}/*.json')):
        d = json.load(open(f))
        if d['signature'] == sig:
            d.pop('replay', None); d['known_finding'] = True
            json.dump(d, open(dst, 'w'), indent=1); print('saved', dst); break
    else:
        print('NO WITNESS FOUND for', prop, sig)
