#!/usr/bin/env python3
"""Developer tool: apply a patch to /repo, run the quick (or thorough) checks of the given properties, undo the patch.
usage: try_seed.py <patch.diff> [--tier quick|thorough] [--suite] [Cxx ...]   (default: all properties)
Prints one line per property: exit code and the violation signatures. Evidence files are saved and restored
(evidence committed in /verif must come from the unchanged tree)."""
import subprocess, sys, json, os, shutil, re, time
args = sys.argv[1:]
patch = args.pop(0)
tier = 'quick'; suite = False
if '--tier' in args:
    i = args.index('--tier'); tier = args[i+1]; del args[i:i+2]
if '--suite' in args:
    args.remove('--suite'); suite = True
props = args or [f"C{i:02d}" for i in range(1, 21)]
def sh(cmd, **kw): return subprocess.run(cmd, shell=True, capture_output=True, text=True, **kw)
st = sh("git -C /repo status --porcelain --untracked-files=no").stdout.strip()
if st:
    print("REPO NOT CLEAN, refusing:", st); sys.exit(2)
os.makedirs('/verif/.work', exist_ok=True)
shutil.rmtree('/verif/.work/evidence.bak', ignore_errors=True)
shutil.copytree('/verif/evidence', '/verif/.work/evidence.bak')
r = sh(f"git -C /repo apply {patch}")
if r.returncode != 0:
    print("PATCH DOES NOT APPLY:", r.stderr); sys.exit(2)
result = {}
try:
    if suite:
        r = sh("/verif/tools/repo_suite.sh")
        print("suite:", r.stdout.strip().splitlines()[-1])
        result['suite'] = r.stdout.strip().splitlines()[-1]
    for p in props:
        t0 = time.time()
        r = sh(f"cd /verif && ./vf check {p} {tier}")
        sigs = re.findall(r"VIOLATION property=\S+ replay=\S+ signature=(\S+) traces=(\d+)", r.stdout)
        result[p] = {'exit': r.returncode, 'signatures': sigs[:8], 'n_signatures': len(sigs)}
        flag = 'CAUGHT' if r.returncode == 1 else ('ok' if r.returncode == 0 else 'MACHINERY')
        print(f"{p}: exit={r.returncode} {flag} {time.time()-t0:.1f}s " + ' | '.join(f"{s} x{n}" for s, n in sigs[:4]) + (f" (+{len(sigs)-4} more)" if len(sigs) > 4 else ''))
        if r.returncode == 2:
            print(r.stderr[-600:])
finally:
    sh("git -C /repo checkout -- .")
    shutil.rmtree('/verif/evidence'); shutil.copytree('/verif/.work/evidence.bak', '/verif/evidence')
    st = sh("git -C /repo status --porcelain --untracked-files=no").stdout.strip()
    print("repo restored:", "clean" if not st else st)
json.dump(result, open('/verif/.work/last_try_seed.json', 'w'), indent=1)
